#!/opt/veriftools/pyvenv/bin/python3
"""Validate MANIFEST.json and every evidence file against the given schemas."""
import json, sys, glob, jsonschema
ok = True
m = json.load(open('/verif/MANIFEST.json'))
try:
    jsonschema.validate(m, json.load(open('/root/.vp/MANIFEST.schema.json')))
    print('MANIFEST ok')
except Exception as e:
    ok = False; print('MANIFEST invalid:', e)
es = json.load(open('/root/.vp/EVIDENCE.schema.json'))
for f in sorted(glob.glob('/verif/evidence/*.json')):
    try:
        jsonschema.validate(json.load(open(f)), es); print(f, 'ok')
    except Exception as e:
        ok = False; print(f, 'invalid:', str(e)[:300])
ids = [json.loads(l)['id'] for l in open('/verif/properties.jsonl')]
claimed = [c['property_id'] for c in m['checks']]
na = [n['property_id'] for n in m.get('not_applicable', [])]
missing = [i for i in ids if i not in claimed and i not in na]
if missing: ok = False; print('properties neither claimed nor not_applicable:', missing)
sys.exit(0 if ok else 1)
