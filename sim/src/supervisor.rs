//! Supervisor / worker containment (DESIGN 2.7), replay files, minimiser, evidence.
//!
//! Exit codes of `check`: 0 = held on everything explored (known findings only), 1 = at least one
//! VIOLATION line, 2 = harness error (never reported as a violation).

use crate::case::{Case, Finding, Report};
use crate::json::Json;
use crate::plan::{Ctx, Tier};
use crate::prng::fnv64;
use std::collections::{BTreeMap, BTreeSet};
use std::io::{BufRead, BufReader, Write};
use std::process::{ChildStdin, ChildStdout, Command, Stdio};
use std::sync::atomic::{AtomicBool, AtomicU64, Ordering};
use std::sync::{Arc, Mutex};
use std::time::{Duration, Instant};

const UNIT_LIMIT: Duration = Duration::from_secs(120);
const SOLO_LIMIT: Duration = Duration::from_secs(25);
/// After this many worker deaths / timeouts the campaign stops handing out units: a tree on which
/// most cases hang or abort is reported from the first few instead of being waited out
const DEATH_BREAKER: usize = 16;

pub fn verif_dir() -> std::path::PathBuf {
    std::path::PathBuf::from(std::env::var("RSSL_SIM_VERIF").unwrap_or_else(|_| "/verif".into()))
}

// -------------------------------------------------------------------------------------------
// worker side

const WARMUP_ENV: &str = "RSSL_SIM_WARMUP";
static WORKERS_SPAWNED: std::sync::atomic::AtomicU64 = std::sync::atomic::AtomicU64::new(0);
/// While a finding is confirmed, minimised or replayed, every child starts with this history
static FORCE_WARMUP: std::sync::atomic::AtomicU64 = std::sync::atomic::AtomicU64::new(u64::MAX);

/// The first compile of a worker process: a minimal graphics pipeline for one of the targets
/// (or none). Its result is not judged - on a tree that holds C07/C08 it cannot matter.
fn warm_up() {
    let k: u64 = std::env::var(WARMUP_ENV).ok().and_then(|v| v.parse().ok()).unwrap_or(3);
    let target = match k % 4 {
        0 => crate::exec::Target::Dx,
        1 => crate::exec::Target::Vk,
        2 => crate::exec::Target::Msl,
        _ => return,
    };
    let fs = crate::plan::snippet_fs(
        "float4 WarmVs(uint id : SV_VertexID) : SV_Position { return float4(id, 0, 0, 1); }\nfloat4 WarmPs() : SV_Target { return float4(1, 0, 0, 1); }\nPipeline WarmP { VertexShader = WarmVs; PixelShader = WarmPs; }\n",
    );
    let mut t = crate::exec::TaskSpec::compile(0, "test.rssl", target);
    t.subject = false;
    let ex = crate::exec::ExecSpec::single((3, 5), crate::plan::STACK_MAIN, t);
    let _ = crate::exec::run_exec(&ex, std::slice::from_ref(&fs));
}

pub fn worker_main(check: &str, tier: Tier, seed: u64) {
    // S9: the worker lives in a private scratch directory (removed at exit)
    let scratch = crate::clock::enter_scratch_directory();

    crate::exec::install_panic_hook();
    if let Err(e) = crate::self_checks() {
        println!("HARNESS-ERROR {e}");
        std::process::exit(2);
    }
    let ctx = Ctx::new(check, tier, seed);
    warm_up();
    println!("READY {}", ctx.units());
    let stdin = std::io::stdin();
    let mut line = String::new();
    loop {
        line.clear();
        match stdin.lock().read_line(&mut line) {
            Ok(0) | Err(_) => break,
            Ok(_) => {}
        }
        let l = line.trim_end_matches('\n');
        if let Some(n) = l.strip_prefix("UNIT ") {
            let n: u64 = n.parse().unwrap_or(0);
            let cases = ctx.unit_cases(n);
            let mut rep = Report::default();
            let mut attached = Json::obj();
            let mut seen: BTreeSet<String> = BTreeSet::new();
            for (ci, c) in cases.iter().enumerate() {
                let r = crate::oracle::run_case(c);
                for f in &r.findings {
                    let key = format!("{}|{}|{}", f.property, f.class, f.fingerprint);
                    if seen.insert(key.clone()) {
                        attached.set(&key, c.to_json());
                    }
                }
                let sample = ci == 0 && n % 7 == 0;
                rep.merge(r);
                if sample && rep.samples.len() < 2 {
                    rep.samples.push(c.summary());
                }
            }
            let out = Json::obj()
                .with("report", rep.to_json())
                .with("cases", attached);
            println!("DONE {n} {}", out.dump());
        } else if let Some(j) = l.strip_prefix("CASE ") {
            match Json::parse(j).and_then(|j| Case::from_json(&j)) {
                Ok(c) => {
                    let rep = crate::oracle::run_case(&c);
                    println!(
                        "DONE 0 {}",
                        Json::obj().with("report", rep.to_json()).dump()
                    );
                }
                Err(e) => println!("HARNESS-ERROR bad case: {e}"),
            }
        } else if let Some(n) = l.strip_prefix("DESCRIBE ") {
            let n: u64 = n.parse().unwrap_or(0);
            let cases = ctx.unit_cases(n);
            println!(
                "CASES {}",
                Json::Arr(cases.iter().map(|c| c.to_json()).collect()).dump()
            );
        } else if l == "QUIT" {
            break;
        }
        let _ = std::io::stdout().flush();
    }
    if let Some(dir) = scratch {
        let _ = std::env::set_current_dir("/");
        let _ = std::fs::remove_dir_all(dir);
    }
}

// -------------------------------------------------------------------------------------------
// supervisor side: one child process

#[derive(Debug, Clone)]
pub enum Death {
    Signal(i32),
    Exit(i32),
    Timeout,
    Harness(String),
}

impl Death {
    fn describe(&self) -> String {
        match self {
            Death::Signal(s) => format!("signal {s}"),
            Death::Exit(c) => format!("exit {c}"),
            Death::Timeout => "timeout".into(),
            Death::Harness(e) => format!("harness: {e}"),
        }
    }
}

pub struct Worker {
    proc: Arc<Mutex<std::process::Child>>,
    stdin: ChildStdin,
    stdout: BufReader<ChildStdout>,
    deadline: Arc<Mutex<Option<Instant>>>,
    timed_out: Arc<AtomicBool>,
    stop: Arc<AtomicBool>,
    pub units: u64,
}

impl Worker {
    pub fn spawn(check: &str, tier: Tier, seed: u64) -> Result<Worker, String> {
        let exe = std::env::current_exe().map_err(|e| e.to_string())?;
        let mut proc = Command::new(exe)
            .args(["worker", check, tier.name(), &seed.to_string()])
            .env(crate::w2::KINDS_ENV, crate::w2::kinds_env_value())
            .env(crate::clock::SCRATCH_ENV, crate::clock::campaign_scratch_parent())
            // what a process compiled first is history too: workers take turns in starting with
            // a compile for DirectX, Vulkan, Metal, or nothing
            .env(
                WARMUP_ENV,
                match FORCE_WARMUP.load(Ordering::Relaxed) {
                    u64::MAX => WORKERS_SPAWNED.fetch_add(1, Ordering::Relaxed) % 4,
                    k => k,
                }
                .to_string(),
            )
            .stdin(Stdio::piped())
            .stdout(Stdio::piped())
            .stderr(Stdio::null())
            .spawn()
            .map_err(|e| format!("spawn worker: {e}"))?;
        let stdin = proc.stdin.take().unwrap();
        let stdout = BufReader::new(proc.stdout.take().unwrap());
        let proc = Arc::new(Mutex::new(proc));
        let deadline: Arc<Mutex<Option<Instant>>> = Arc::new(Mutex::new(None));
        let timed_out = Arc::new(AtomicBool::new(false));
        let stop = Arc::new(AtomicBool::new(false));
        {
            // Hang watchdog: the only reader of wall-clock time, and it never influences a run
            let proc = proc.clone();
            let deadline = deadline.clone();
            let timed_out = timed_out.clone();
            let stop = stop.clone();
            std::thread::spawn(move || {
                while !stop.load(Ordering::Relaxed) {
                    std::thread::sleep(Duration::from_millis(200));
                    let d = *deadline.lock().unwrap();
                    if let Some(d) = d
                        && Instant::now() > d
                    {
                        timed_out.store(true, Ordering::SeqCst);
                        let _ = proc.lock().unwrap().kill();
                        *deadline.lock().unwrap() = None;
                    }
                }
            });
        }
        let mut w = Worker {
            proc,
            stdin,
            stdout,
            deadline,
            timed_out,
            stop,
            units: 0,
        };
        let ready = w.read_line(Duration::from_secs(120))?;
        if let Some(n) = ready.strip_prefix("READY ") {
            w.units = n.trim().parse().unwrap_or(0);
            Ok(w)
        } else {
            Err(format!("worker did not start: {ready}"))
        }
    }

    fn read_line(&mut self, limit: Duration) -> Result<String, String> {
        *self.deadline.lock().unwrap() = Some(Instant::now() + limit);
        let mut line = String::new();
        let r = self.stdout.read_line(&mut line);
        *self.deadline.lock().unwrap() = None;
        match r {
            Ok(0) => Err("eof".into()),
            Ok(_) => Ok(line.trim_end_matches('\n').to_string()),
            Err(e) => Err(e.to_string()),
        }
    }

    /// Send one request line and wait for the one-line answer
    pub fn request(&mut self, req: &str, limit: Duration) -> Result<String, Death> {
        if self.stdin.write_all(req.as_bytes()).is_err()
            || self.stdin.write_all(b"\n").is_err()
            || self.stdin.flush().is_err()
        {
            return Err(self.death());
        }
        match self.read_line(limit) {
            Ok(l) => {
                if let Some(e) = l.strip_prefix("HARNESS-ERROR ") {
                    Err(Death::Harness(e.to_string()))
                } else {
                    Ok(l)
                }
            }
            Err(_) => Err(self.death()),
        }
    }

    fn death(&mut self) -> Death {
        let status = self.proc.lock().unwrap().wait();
        if self.timed_out.load(Ordering::SeqCst) {
            return Death::Timeout;
        }
        match status {
            Ok(s) => {
                use std::os::unix::process::ExitStatusExt;
                if let Some(sig) = s.signal() {
                    Death::Signal(sig)
                } else {
                    Death::Exit(s.code().unwrap_or(-1))
                }
            }
            Err(e) => Death::Harness(e.to_string()),
        }
    }
}

impl Drop for Worker {
    fn drop(&mut self) {
        self.stop.store(true, Ordering::Relaxed);
        let _ = self.stdin.write_all(b"QUIT\n");
        let _ = self.stdin.flush();
        let mut p = self.proc.lock().unwrap();
        let _ = p.kill();
        let _ = p.wait();
    }
}

fn parse_done(line: &str) -> Option<(u64, Json)> {
    let rest = line.strip_prefix("DONE ")?;
    let (n, j) = rest.split_once(' ')?;
    Some((n.parse().ok()?, Json::parse(j).ok()?))
}

/// Run one literal case alone in a fresh child. Ok(report) or the way the child died.
pub fn run_case_in_child(ctx_args: (&str, Tier, u64), case: &Case) -> Result<Report, Death> {
    let mut w = Worker::spawn(ctx_args.0, ctx_args.1, ctx_args.2).map_err(Death::Harness)?;
    run_case_on(&mut w, case)
}

fn run_case_on(w: &mut Worker, case: &Case) -> Result<Report, Death> {
    let line = w.request(&format!("CASE {}", case.to_json().dump()), SOLO_LIMIT)?;
    match parse_done(&line) {
        Some((_, j)) => Ok(Report::from_json(j.get("report").unwrap_or(&Json::Null))),
        None => Err(Death::Harness(format!("bad answer: {line}"))),
    }
}

/// The findings a case produces when run in a child, with process death mapped to a finding
fn findings_of(ctx_args: (&str, Tier, u64), w: &mut Option<Worker>, case: &Case) -> Vec<Finding> {
    if w.is_none() {
        *w = Worker::spawn(ctx_args.0, ctx_args.1, ctx_args.2).ok();
    }
    let Some(worker) = w.as_mut() else {
        return vec![];
    };
    match run_case_on(worker, case) {
        Ok(rep) => rep.findings,
        Err(d) => {
            *w = None;
            match d {
                Death::Signal(s) => vec![Finding {
                    property: abort_property(case),
                    class: "abort".into(),
                    fingerprint: format!("signal {s}"),
                    detail: format!("{}: process died with signal {s}", case.label),
                }],
                Death::Timeout => vec![Finding {
                    property: abort_property(case),
                    class: "hang".into(),
                    fingerprint: "timeout".into(),
                    detail: format!("{}: no result within {:?}", case.label, SOLO_LIMIT),
                }],
                _ => vec![],
            }
        }
    }
}

/// Which property a process death counts against: C08 says it outright; for the other checks a
/// death of the compiler is reported under C08 as well unless the check is C07 (where "dies under
/// one key only" cannot be told apart here and the C08 check covers the input anyway)
fn abort_property(case: &Case) -> String {
    // reported under the property whose check met it: for C08 it is the statement itself; for
    // the other checks a compiler that dies gives neither the result the model predicts (C12,
    // C14) nor a result that can equal another execution's (C07)
    case.check.clone()
}

// -------------------------------------------------------------------------------------------
// known findings

#[derive(Clone, Debug)]
pub struct Known {
    pub status: String,
    pub property: String,
    pub class: String,
    pub fingerprint: String,
    pub what: String,
}

pub fn load_known() -> Result<Vec<Known>, String> {
    let path = verif_dir().join("known_findings.json");
    let Ok(text) = std::fs::read_to_string(&path) else {
        return Ok(vec![]);
    };
    let j = Json::parse(&text).map_err(|e| format!("known_findings.json: {e}"))?;
    Ok(j.ga("findings")
        .iter()
        .map(|f| Known {
            status: f.gs("status"),
            property: f.gs("property"),
            class: f.gs("class"),
            fingerprint: f.gs("fingerprint"),
            what: f.gs("what"),
        })
        .collect())
}

fn matches_known<'a>(known: &'a [Known], f: &Finding) -> Option<&'a Known> {
    known.iter().find(|k| {
        k.status == "open"
            && k.property == f.property
            && k.class == f.class
            && k.fingerprint == f.fingerprint
    })
}

// -------------------------------------------------------------------------------------------
// minimiser (deterministic ddmin over the literal case)

fn same_violation(fs: &[Finding], want: &Finding) -> bool {
    fs.iter().any(|f| {
        f.property == want.property && f.class == want.class && f.fingerprint == want.fingerprint
    })
}

pub fn minimise(ctx_args: (&str, Tier, u64), case: &Case, want: &Finding) -> (Case, u32, bool) {
    let start = Instant::now();
    let budget_runs = 400u32;
    let budget_time = Duration::from_secs(90);
    let mut runs = 0u32;
    let mut worker: Option<Worker> = None;
    let mut best = case.clone();

    let mut try_case = |cand: &Case, runs: &mut u32, worker: &mut Option<Worker>| -> bool {
        if *runs >= budget_runs || start.elapsed() > budget_time {
            return false;
        }
        *runs += 1;
        same_violation(&findings_of(ctx_args, worker, cand), want)
    };

    // 1. fewer executions: a differing pair is enough for C07, one execution for the others
    if best.execs.len() > 1 {
        let mut reduced = false;
        if best.kind != "det" {
            for i in 0..best.execs.len() {
                let mut c = best.clone();
                c.execs = vec![best.execs[i].clone()];
                if try_case(&c, &mut runs, &mut worker) {
                    best = c;
                    reduced = true;
                    break;
                }
            }
        }
        if !reduced && best.execs.len() > 2 {
            'pairs: for i in 0..best.execs.len() {
                for j in (i + 1)..best.execs.len() {
                    let mut c = best.clone();
                    c.execs = vec![best.execs[i].clone(), best.execs[j].clone()];
                    if try_case(&c, &mut runs, &mut worker) {
                        best = c;
                        break 'pairs;
                    }
                }
            }
        }
    }

    // 2. fewer threads and tasks: keep subjects only
    {
        let mut c = best.clone();
        for ex in &mut c.execs {
            ex.threads.retain(|t| t.tasks.iter().any(|k| k.subject));
            for t in &mut ex.threads {
                t.tasks.retain(|k| k.subject);
                for k in &mut t.tasks {
                    k.heap_noise = 0;
                }
            }
            if ex.threads.len() > 1 && best.kind != "det" {
                ex.threads.truncate(1);
            }
        }
        if c != best && try_case(&c, &mut runs, &mut worker) {
            best = c;
        }
        // twins -> separate single-thread executions
        let mut c = best.clone();
        let mut execs = Vec::new();
        for ex in &c.execs {
            for t in &ex.threads {
                let mut e = ex.clone();
                e.threads = vec![t.clone()];
                e.schedule = None;
                execs.push(e);
            }
        }
        c.execs = execs;
        if c != best && try_case(&c, &mut runs, &mut worker) {
            best = c;
        }
    }

    // 3. fewer faults
    loop {
        let mut progress = false;
        'outer: for ei in 0..best.execs.len() {
            for ti in 0..best.execs[ei].threads.len() {
                for ki in 0..best.execs[ei].threads[ti].tasks.len() {
                    let n = best.execs[ei].threads[ti].tasks[ki].faults.len();
                    for fi in 0..n {
                        let mut c = best.clone();
                        c.execs[ei].threads[ti].tasks[ki].faults.remove(fi);
                        if try_case(&c, &mut runs, &mut worker) {
                            best = c;
                            progress = true;
                            break 'outer;
                        }
                    }
                }
            }
        }
        if !progress {
            break;
        }
    }

    // 4. fewer files (ddmin over the file set of each tree), then fewer lines per file.
    //    Files named by a remaining fault keep their names (content may shrink).
    for fi in 0..best.fss.len() {
        let names: Vec<String> = best.fss[fi].files.keys().cloned().collect();
        let mut keep: Vec<String> = names.clone();
        let mut chunk = keep.len().div_ceil(2).max(1);
        while chunk >= 1 && keep.len() > 1 {
            let mut i = 0;
            let mut removed_any = false;
            while i < keep.len() {
                let end = (i + chunk).min(keep.len());
                let mut c = best.clone();
                for n in &keep[i..end] {
                    c.fss[fi].files.remove(n);
                }
                if !c.fss[fi].files.is_empty() && try_case(&c, &mut runs, &mut worker) {
                    best = c;
                    keep.drain(i..end);
                    removed_any = true;
                } else {
                    i = end;
                }
            }
            if chunk == 1 && !removed_any {
                break;
            }
            chunk = if chunk == 1 { 1 } else { chunk.div_ceil(2) };
            if chunk == 1 && !removed_any && keep.len() <= 1 {
                break;
            }
            if runs >= budget_runs || start.elapsed() > budget_time {
                break;
            }
        }
    }
    for fi in 0..best.fss.len() {
        let mut names: Vec<String> = best.fss[fi].files.keys().cloned().collect();
        names.sort_by_key(|n| std::cmp::Reverse(best.fss[fi].files[n].len()));
        for name in names {
            let mut lines: Vec<String> = best.fss[fi].files[&name]
                .split_inclusive('\n')
                .map(|s| s.to_string())
                .collect();
            let mut chunk = lines.len().div_ceil(2).max(1);
            loop {
                let mut i = 0;
                let mut removed_any = false;
                while i < lines.len() {
                    let end = (i + chunk).min(lines.len());
                    let mut cand_lines = lines.clone();
                    cand_lines.drain(i..end);
                    let mut c = best.clone();
                    c.fss[fi].files.insert(name.clone(), cand_lines.concat());
                    if try_case(&c, &mut runs, &mut worker) {
                        best = c;
                        lines = cand_lines;
                        removed_any = true;
                    } else {
                        i = end;
                    }
                }
                if runs >= budget_runs || start.elapsed() > budget_time {
                    break;
                }
                if chunk == 1 {
                    if !removed_any {
                        break;
                    }
                } else {
                    chunk = chunk.div_ceil(2);
                }
            }
        }
    }

    let exhausted = runs >= budget_runs || start.elapsed() > budget_time;
    (best, runs, !exhausted)
}

// -------------------------------------------------------------------------------------------
// replay files

fn write_replay(
    ctx: &Ctx,
    unit: u64,
    case: &Case,
    f: &Finding,
    minimised: bool,
    min_runs: u32,
    process_history: Option<u64>,
) -> std::path::PathBuf {
    let dir = verif_dir().join("replays");
    let _ = std::fs::create_dir_all(&dir);
    let fp = fnv64(format!("{}|{}|{}", f.property, f.class, f.fingerprint).as_bytes());
    let path = dir.join(format!("{}-{:016x}.json", f.property, fp));
    let j = Json::obj()
        .with("property", Json::s(&f.property))
        .with("check", Json::s(&ctx.check))
        .with("tier", Json::s(ctx.tier.name()))
        .with("seed", Json::u(ctx.seed))
        .with("unit", Json::u(unit))
        .with("violation", f.to_json())
        .with("minimised", Json::Bool(minimised))
        .with("minimiser_runs", Json::u(min_runs as u64))
        // what the replaying process compiles first: 0 DirectX, 1 Vulkan, 2 Metal, 3 nothing
        .with("process_history", Json::u(process_history.unwrap_or(3)))
        .with("case", case.to_json());
    let _ = std::fs::write(&path, j.pretty());
    path
}

pub fn replay(path: &str) -> i32 {
    let text = match std::fs::read_to_string(path) {
        Ok(t) => t,
        Err(e) => {
            eprintln!("HARNESS-ERROR: cannot read {path}: {e}");
            return 2;
        }
    };
    let j = match Json::parse(&text) {
        Ok(j) => j,
        Err(e) => {
            eprintln!("HARNESS-ERROR: {path}: {e}");
            return 2;
        }
    };
    let case = match Case::from_json(j.get("case").unwrap_or(&Json::Null)) {
        Ok(c) => c,
        Err(e) => {
            eprintln!("HARNESS-ERROR: {path}: {e}");
            return 2;
        }
    };
    let want = Finding::from_json(j.get("violation").unwrap_or(&Json::Null));
    let tier = crate::parse_tier(&j.gs("tier"));
    let args = (j.gs("check"), tier, j.gu("seed"));
    FORCE_WARMUP.store(
        if j.get("process_history").is_some() { j.gu("process_history") } else { 3 },
        Ordering::Relaxed,
    );
    let mut w = None;
    let got = findings_of((&args.0, args.1, args.2), &mut w, &case);
    for f in &got {
        println!("replayed: {} {} [{}] {}", f.property, f.class, f.fingerprint, f.detail);
    }
    if same_violation(&got, &want) {
        println!("VIOLATION property={} replay={}", want.property, path);
        1
    } else {
        println!(
            "replay of {path}: violation {} [{}] not reproduced on this tree",
            want.class, want.fingerprint
        );
        0
    }
}

// -------------------------------------------------------------------------------------------
// the check

struct Shared {
    next: AtomicU64,
    units: u64,
    agg: Mutex<Agg>,
}

#[derive(Default)]
struct Agg {
    report: Report,
    /// (unit, finding, literal case if the worker attached it)
    findings: Vec<(u64, Finding, Option<Json>)>,
    deaths: Vec<(u64, Death)>,
    harness_errors: Vec<String>,
    unit_digests: BTreeMap<u64, u64>,
    done_units: u64,
}

fn absorb_unit(agg: &mut Agg, unit: u64, j: &Json) {
    let rep_json = j.get("report").cloned().unwrap_or(Json::Null);
    agg.unit_digests.insert(unit, fnv64(rep_json.dump().as_bytes()));
    let rep = Report::from_json(&rep_json);
    for f in &rep.findings {
        let key = format!("{}|{}|{}", f.property, f.class, f.fingerprint);
        let case = j.get("cases").and_then(|c| c.get(&key)).cloned();
        agg.findings.push((unit, f.clone(), case));
    }
    let mut rep = rep;
    rep.findings.clear();
    agg.report.merge(rep);
    agg.done_units += 1;
}

pub fn check(check: &str, tier: Tier) -> i32 {
    let t0 = Instant::now();
    let seed: u64 = std::env::var("VERIF_SEED")
        .ok()
        .and_then(|s| s.trim().parse().ok())
        .unwrap_or(1);
    println!("rssl-sim check={check} tier={} VERIF_SEED={seed}", tier.name());

    crate::exec::install_panic_hook();
    if let Err(e) = crate::self_checks() {
        println!("HARNESS-ERROR: {e}");
        return 2;
    }
    let known = match load_known() {
        Ok(k) => k,
        Err(e) => {
            println!("HARNESS-ERROR: {e}");
            return 2;
        }
    };
    let ctx = Ctx::new(check, tier, seed);
    let units = ctx.units();
    if units == 0 {
        println!("HARNESS-ERROR: no workload left for {check} ({:?})", ctx.notes);
        return 2;
    }
    let nworkers: usize = std::env::var("RSSL_SIM_WORKERS")
        .ok()
        .and_then(|s| s.parse().ok())
        .unwrap_or_else(|| {
            std::thread::available_parallelism()
                .map(|n| n.get())
                .unwrap_or(4)
                .min(16)
        })
        .max(1);
    println!(
        "units={units} workers={nworkers} sections={:?}",
        ctx.sections()
    );

    let shared = Arc::new(Shared {
        next: AtomicU64::new(0),
        units,
        agg: Mutex::new(Agg::default()),
    });

    let mut handles = Vec::new();
    for _ in 0..nworkers {
        let shared = shared.clone();
        let check = check.to_string();
        handles.push(std::thread::spawn(move || {
            let mut worker: Option<Worker> = None;
            loop {
                {
                    let agg = shared.agg.lock().unwrap();
                    let timeouts = agg
                        .deaths
                        .iter()
                        .filter(|d| matches!(d.1, Death::Timeout))
                        .count();
                    if agg.deaths.len() >= DEATH_BREAKER || timeouts >= 4 {
                        break;
                    }
                }
                let n = shared.next.fetch_add(1, Ordering::SeqCst);
                if n >= shared.units {
                    break;
                }
                if worker.is_none() {
                    match Worker::spawn(&check, tier, seed) {
                        Ok(w) => worker = Some(w),
                        Err(e) => {
                            shared.agg.lock().unwrap().harness_errors.push(e);
                            break;
                        }
                    }
                }
                let w = worker.as_mut().unwrap();
                match w.request(&format!("UNIT {n}"), UNIT_LIMIT) {
                    Ok(line) => match parse_done(&line) {
                        Some((u, j)) if u == n => absorb_unit(&mut shared.agg.lock().unwrap(), n, &j),
                        _ => shared
                            .agg
                            .lock()
                            .unwrap()
                            .harness_errors
                            .push(format!("unit {n}: bad answer {:?}", &line[..line.len().min(200)])),
                    },
                    Err(Death::Harness(e)) => {
                        shared.agg.lock().unwrap().harness_errors.push(e);
                        worker = None;
                    }
                    Err(d) => {
                        shared.agg.lock().unwrap().deaths.push((n, d));
                        worker = None;
                    }
                }
            }
        }));
    }
    for h in handles {
        let _ = h.join();
    }
    let main_wall = t0.elapsed().as_secs_f64();

    let mut agg = std::mem::take(&mut *shared.agg.lock().unwrap());
    let ctx_args = (check, tier, seed);

    // Worker deaths: attribute to a case by running each case of the unit alone in a fresh child
    let deaths = std::mem::take(&mut agg.deaths);
    let total_deaths = deaths.len();
    if agg.done_units + (total_deaths as u64) < units {
        agg.report.notes.insert(format!(
            "campaign stopped early after {total_deaths} worker deaths / timeouts ({} of {} units done)",
            agg.done_units, units
        ));
    }
    if total_deaths > 12 {
        agg.report.notes.insert(format!(
            "{total_deaths} worker deaths; only the first 12 were attributed to a case by solo re-execution"
        ));
    }
    // a hang costs the solo limit per attribution: three attributed hangs are enough to report
    let mut hangs_attributed = 0usize;
    for (unit, d) in deaths.into_iter().take(12) {
        if matches!(d, Death::Timeout) {
            if hangs_attributed >= 3 {
                continue;
            }
            hangs_attributed += 1;
        }
        println!("worker died in unit {unit}: {}", d.describe());
        let cases = ctx.unit_cases(unit);
        let mut attributed = false;
        let mut clean = Report::default();
        // the limit for a solo case is generous for timeouts that were met once already
        let only_first = 3usize;
        let mut attributed_n = 0usize;
        let mut solo: Option<Worker> = None;
        for c in &cases {
            // one child serves consecutive cases until one of them kills it
            if solo.is_none() {
                solo = Worker::spawn(ctx_args.0, ctx_args.1, ctx_args.2).ok();
            }
            let outcome = match solo.as_mut() {
                Some(w) => run_case_on(w, c),
                None => Err(Death::Harness("cannot spawn".into())),
            };
            if outcome.is_err() {
                solo = None;
            }
            match outcome {
                Ok(mut r) => {
                    for f in r.findings.drain(..) {
                        agg.findings.push((unit, f, Some(c.to_json())));
                    }
                    clean.merge(r);
                }
                Err(death) => {
                    let f = match death {
                        Death::Signal(sig) => Some(Finding {
                            property: abort_property(c),
                            class: "abort".into(),
                            fingerprint: format!("signal {sig}"),
                            detail: format!("{}: process died with signal {sig}", c.label),
                        }),
                        Death::Timeout => Some(Finding {
                            property: abort_property(c),
                            class: "hang".into(),
                            fingerprint: "timeout".into(),
                            detail: format!("{}: no result within {:?}", c.label, SOLO_LIMIT),
                        }),
                        _ => None,
                    };
                    if let Some(f) = f {
                        attributed = true;
                        attributed_n += 1;
                        agg.findings.push((unit, f, Some(c.to_json())));
                        if attributed_n >= only_first || matches!(death, Death::Timeout) {
                            break;
                        }
                    }
                }
            }
        }
        if !attributed {
            agg.report.notes.insert(format!(
                "unit {unit}: worker death ({}) did not reproduce when its cases ran alone; unit re-run clean",
                d.describe()
            ));
        }
        agg.report.merge(clean);
        agg.done_units += 1;
    }

    // Simulator determinism proof on a sample: re-execute units in other worker processes and
    // compare the complete unit reports (they contain no wall-clock data)
    let replicate: u64 = match tier {
        Tier::Quick => 48,
        Tier::Thorough => 256,
    };
    let mut replicated = 0u64;
    let mut mismatches: Vec<u64> = Vec::new();
    {
        let sample: Vec<u64> = {
            let mut r = ctx.rng().sub("replica-sample");
            let mut s = BTreeSet::new();
            for _ in 0..replicate * 2 {
                if s.len() as u64 >= replicate.min(units) {
                    break;
                }
                s.insert(r.below(units));
            }
            s.into_iter().collect()
        };
        let sample = Arc::new(sample);
        let idx = Arc::new(AtomicU64::new(0));
        let results: Arc<Mutex<Vec<(u64, Option<u64>)>>> = Arc::new(Mutex::new(Vec::new()));
        let mut hs = Vec::new();
        for _ in 0..nworkers.min(sample.len().max(1)) {
            let sample = sample.clone();
            let idx = idx.clone();
            let results = results.clone();
            let check = check.to_string();
            hs.push(std::thread::spawn(move || {
                let mut w: Option<Worker> = None;
                loop {
                    let i = idx.fetch_add(1, Ordering::SeqCst) as usize;
                    if i >= sample.len() {
                        break;
                    }
                    let n = sample[i];
                    // a FRESH process for every replicated unit: no compile has run in it before,
                    // the strongest contrast to the long-lived worker that ran the unit first
                    w = Worker::spawn(&check, tier, seed).ok();
                    let Some(worker) = w.as_mut() else { break };
                    let d = match worker.request(&format!("UNIT {n}"), UNIT_LIMIT) {
                        Ok(line) => parse_done(&line).map(|(_, j)| {
                            fnv64(j.get("report").cloned().unwrap_or(Json::Null).dump().as_bytes())
                        }),
                        Err(_) => {
                            w = None;
                            None
                        }
                    };
                    results.lock().unwrap().push((n, d));
                }
            }));
        }
        for h in hs {
            let _ = h.join();
        }
        for (n, d) in results.lock().unwrap().iter() {
            if let (Some(d), Some(orig)) = (d, agg.unit_digests.get(n)) {
                replicated += 1;
                if d != orig {
                    mismatches.push(*n);
                }
            }
        }
    }
    if !mismatches.is_empty() {
        // Either rssl depends on the process (a C07 violation) or the simulator is not deterministic.
        // Told apart by a null workload: the simulator's own logs carry no rssl outcome.
        for n in &mismatches {
            if check == "C07" {
                let cases = ctx.unit_cases(*n);
                if let Some(c) = cases.first() {
                    agg.findings.push((
                        *n,
                        Finding {
                            property: "C07".into(),
                            class: "nondeterministic-across-processes".into(),
                            fingerprint: "unit-report-differs".into(),
                            detail: format!(
                                "{}: the same unit executed in two worker processes produced different reports",
                                c.label
                            ),
                        },
                        Some(c.to_json()),
                    ));
                }
            } else {
                agg.harness_errors.push(format!(
                    "unit {n}: report differs between two worker processes (simulator or rssl nondeterminism; run the C07 check)"
                ));
            }
        }
    }

    // Findings: group, match against the known-findings file, minimise and confirm the rest
    let mut groups: BTreeMap<(String, String, String), (u64, Finding, Option<Json>, u64)> =
        BTreeMap::new();
    for (unit, f, case) in agg.findings.drain(..) {
        let key = (f.property.clone(), f.class.clone(), f.fingerprint.clone());
        let e = groups.entry(key).or_insert((unit, f.clone(), None, 0));
        e.3 += 1;
        // representative: the lowest unit that attached its case (independent of arrival order)
        if case.is_some() && (e.2.is_none() || unit < e.0) {
            e.0 = unit;
            e.1 = f;
            e.2 = case;
        }
    }
    let mut violations = 0u64;
    let mut known_met: Vec<String> = Vec::new();
    let mut violation_lines: Vec<Json> = Vec::new();
    for ((property, class, fingerprint), (unit, f, case, count)) in groups {
        if let Some(k) = matches_known(&known, &f) {
            println!(
                "KNOWN-FINDING: property={property} {class} [{fingerprint}] {} ({count} occurrences, e.g. {})",
                k.what, f.detail
            );
            known_met.push(format!("{property} {class} [{fingerprint}] x{count}"));
            continue;
        }
        let case = match case
            .as_ref()
            .and_then(|j| Case::from_json(j).ok())
            .or_else(|| ctx.unit_cases(unit).into_iter().next())
        {
            Some(c) => c,
            None => {
                agg.harness_errors
                    .push(format!("finding without case in unit {unit}: {}", f.detail));
                continue;
            }
        };
        // Confirm in a fresh child before anything is printed as a violation. A finding may
        // depend on what the process compiled first (see warm_up): the four histories are tried
        // in turn, and the one that reproduces it is kept for the minimiser and the replay file.
        let mut confirmed = class == "nondeterministic-across-processes";
        let mut history: Option<u64> = None;
        if !confirmed {
            for k in [3u64, 0, 1, 2] {
                FORCE_WARMUP.store(k, Ordering::Relaxed);
                let mut w = None;
                let ok = same_violation(&findings_of(ctx_args, &mut w, &case), &f);
                drop(w);
                if ok {
                    confirmed = true;
                    history = Some(k);
                    break;
                }
            }
        }
        if !confirmed {
            FORCE_WARMUP.store(u64::MAX, Ordering::Relaxed);
            agg.harness_errors.push(format!(
                "unit {unit}: {property} {class} [{fingerprint}] did not reproduce in a fresh child: {}",
                f.detail
            ));
            continue;
        }
        let (min_case, runs, complete) = if class == "nondeterministic-across-processes" || class == "hang" {
            (case.clone(), 0, false)
        } else {
            minimise(ctx_args, &case, &f)
        };
        FORCE_WARMUP.store(u64::MAX, Ordering::Relaxed);
        let path = write_replay(&ctx, unit, &min_case, &f, complete, runs, history);
        println!(
            "violation: {property} {class} [{fingerprint}] x{count}: {}",
            f.detail
        );
        println!("VIOLATION property={property} replay={}", path.display());
        violations += 1;
        violation_lines.push(
            Json::obj()
                .with("property", Json::s(&property))
                .with("class", Json::s(&class))
                .with("fingerprint", Json::s(&fingerprint))
                .with("occurrences", Json::u(count))
                .with("detail", Json::s(&f.detail))
                .with("replay", Json::s(&path.display().to_string())),
        );
    }

    let wall = t0.elapsed().as_secs_f64();
    let rep = &agg.report;
    if rep.samples.is_empty() || rep.evals == 0 {
        agg.harness_errors
            .push("no case was executed".to_string());
    }

    // Evidence
    let level = match check {
        "C08" | "C14" => "fault_enumeration",
        _ => "exploration",
    };
    let mut fired = Json::obj();
    for k in crate::simfs::ALL_KINDS {
        fired.set(k, Json::u(rep.fired.get(*k).copied().unwrap_or(0)));
    }
    for (k, v) in &rep.fired {
        if fired.get(k).is_none() {
            fired.set(k, Json::u(*v));
        }
    }
    let per_hour = |n: u64| -> Json { Json::u((n as f64 / main_wall.max(0.001) * 3600.0) as u64) };
    let mut probes = Json::obj();
    for (k, v) in &rep.probes {
        probes.set(
            k,
            Json::obj()
                .with("iterations", Json::u(v.0))
                .with("iterations_with_2_or_more_elements", Json::u(v.1))
                .with("scenarios_where_2_or_more_orders_were_seen", Json::u(v.2)),
        );
    }
    let mut counters = Json::obj();
    for (k, v) in &rep.counters {
        counters.set(k, Json::u(*v));
    }
    let mut outcomes = Json::obj();
    for (k, v) in &rep.outcomes {
        outcomes.set(k, Json::u(*v));
    }
    let mut unit_digest_all = 0xcbf2_9ce4_8422_2325u64;
    for (u, d) in &agg.unit_digests {
        unit_digest_all = crate::prng::fnv64_extend(unit_digest_all, &u.to_le_bytes());
        unit_digest_all = crate::prng::fnv64_extend(unit_digest_all, &d.to_le_bytes());
    }
    let mut notes: Vec<String> = ctx.notes.clone();
    notes.extend(rep.notes.iter().cloned());
    let coverage = Json::obj()
        .with("evaluations", Json::u(rep.evals))
        .with("distinct_nontrivial", Json::u(rep.nontrivial.len() as u64))
        .with("rule", Json::s(&rule_text(check)))
        .with("samples", Json::Arr(rep.samples.clone()))
        .with("exhaustive", Json::Bool(false))
        .with("simulated_runs", Json::u(rep.cases))
        .with("units", Json::u(agg.done_units))
        .with("distinct_scenarios", Json::u(rep.scenario_digests.len() as u64))
        .with("runs_per_hour", per_hour(rep.cases))
        .with("seeds_per_hour", per_hour(rep.cases))
        .with("rssl_calls_per_hour", per_hour(rep.evals))
        .with(
            "simulated_time",
            Json::obj()
                .with("note", Json::s("rssl has no clock; logical time is counted in events"))
                .with("handler_events", Json::u(rep.loads))
                .with("allocation_events", Json::u(rep.allocs)),
        )
        .with("faults_fired", fired)
        .with(
            "distinct_states_reached",
            Json::obj()
                .with(
                    "measure",
                    Json::s("FNV-1a of the canonical event log of an execution (task starts in global order, scheduler choices, every load request/response with content digest), outcomes excluded"),
                )
                .with("distinct_event_histories", Json::u(rep.history_digests.len() as u64))
                .with("distinct_interleavings_of_concurrent_tasks", Json::u(rep.interleavings.len() as u64))
                .with("distinct_hash_orders_of_canary_set", Json::u(rep.canaries.len() as u64)),
        )
        .with("hash_iteration_probes", probes)
        .with("outcomes", outcomes)
        .with("counters", counters)
        .with(
            "simulator_determinism",
            Json::obj()
                .with("units_re_executed_in_another_process", Json::u(replicated))
                .with("mismatches", Json::u(mismatches.len() as u64))
                .with("digest_of_all_unit_reports", Json::s(&format!("{unit_digest_all:016x}"))),
        )
        .with(
            "components",
            Json::obj()
                .with(
                    "real",
                    Json::strs([
                        "rssl::compile (src/compile.rs)",
                        "rssl-preprocess",
                        "rssl-parser",
                        "rssl-typer",
                        "rssl-ir",
                        "rssl-formatter",
                        "rssl-hlsl",
                        "rssl-msl",
                        "rssl-text",
                    ]),
                )
                .with(
                    "stub",
                    Json::strs([
                        "include handler (SimFs implements rssl_text::IncludeHandler)",
                        "OS entropy (getrandom interposed; hash keys come from the run seed)",
                        "Metal tool chain (absent on Linux: MetalBytecode ends in MetalCompilerNotFound)",
                    ]),
                ),
        )
        .with("known_findings_met", Json::strs(known_met.iter()))
        .with("violation_details", Json::Arr(violation_lines))
        .with("harness_errors", Json::strs(agg.harness_errors.iter()))
        .with("notes", Json::strs(notes.iter()));
    let evidence = Json::obj()
        .with("property_id", Json::s(check))
        .with("tier", Json::s(tier.name()))
        .with("seed", Json::u(seed))
        .with("level", Json::s(level))
        .with("coverage", coverage)
        .with("assumptions", Json::strs(assumptions(check)))
        .with("wall_s", Json::Float((wall * 100.0).round() / 100.0))
        .with("violations", Json::u(violations));
    let dir = verif_dir().join("evidence");
    let _ = std::fs::create_dir_all(&dir);
    if let Err(e) = std::fs::write(dir.join(format!("{check}.json")), evidence.pretty()) {
        println!("HARNESS-ERROR: cannot write evidence: {e}");
        return 2;
    }

    println!(
        "done: units={} cases={} rssl_calls={} loads={} nontrivial={} violations={violations} known={} wall={:.1}s",
        agg.done_units,
        rep.cases,
        rep.evals,
        rep.loads,
        rep.nontrivial.len(),
        known_met.len(),
        wall
    );
    for e in &agg.harness_errors {
        println!("HARNESS-ERROR: {e}");
    }
    if violations > 0 {
        return 1;
    }
    if !agg.harness_errors.is_empty() {
        return 2;
    }
    0
}

fn same_class(fs: &[Finding], class: &str) -> bool {
    fs.iter().any(|f| f.class == class)
}

fn rule_text(check: &str) -> String {
    match check {
        "C07" => "A case is one scenario (file tree, entry, defines, target, options, fault plan) executed S times under different hash keys, thread histories, concurrent neighbours, heap noise and stack sizes; scenarios come from the repository's shaders (W1), generated container-filling programs (W2), generated include graphs (W3), faulted variants (W4) and snippets of the repository's tests (W5). distinct_nontrivial counts distinct scenario digests whose executions really ran under >= 2 different hash orders (canary set) or showed >= 2 iteration orders at a probed hash-iteration site.".into(),
        "C08" => "A case is one compile of a scenario under a fault plan of the simulated file system (error at k-th load, short read, flipped bit, lost/duplicated lines, empty file, CRLF/BOM/NUL, hostile real_name, stale second read, include cycles) or the fault-free baseline. distinct_nontrivial counts distinct (scenario, fault plan) digests in which a fault actually fired, i.e. changed a response the compiler received.".into(),
        "C12" => "A case is one generated include graph (files, directives, macros) on a simulated directory tree, preprocessed by rssl and by the reference model; distinct_nontrivial counts distinct graphs in which at least one include was followed and at least one of: once-skip, macro redefinition across files, alias, fault fired.".into(),
        "C14" => "A case is one scenario with a planted failure (failed load / NUL byte / type error at a marker) whose position the simulator knows, plus its shifted and bystander-growth variants; distinct_nontrivial counts distinct scenarios where the diagnostic was located in a file other than the entry or after >= 1 earlier loaded file.".into(),
        _ => String::new(),
    }
}

fn assumptions(check: &str) -> Vec<String> {
    let mut v = vec![
        "std's RandomState takes its per-thread keys from the interposed getrandom symbol (self-checked at start-up: exactly one call per fresh thread, hash order a pure function of the key)".to_string(),
        "the compiler is built with the repository's dev-profile semantics (overflow checks, debug assertions, unwinding) at opt-level 2".to_string(),
        "a sampled search: a clean run is evidence, not proof".to_string(),
    ];
    match check {
        "C07" => v.push("nondeterminism that needs an input shape outside W1-W5 is not reached".into()),
        "C08" => v.push("only inputs that arrive through the include handler as realistic sources under storage/transport faults; no byte-level or grammar-level input fuzzing (another technique family)".into()),
        "C12" => v.push("only the inclusion / define-placement clauses; function-like macro substitution and ## semantics are pure token functions and are not decided here; the reference model covers exactly the directive subset the generator emits".into()),
        "C14" => v.push("only diagnostics whose position the simulator planted; the trivia clause of the statement is a pure text relation and is not decided except for whole-tree CRLF translation".into()),
        _ => {}
    }
    v
}
