//! Seam S1 - entropy. std resolves `getrandom` through a weak symbol so that it can be interposed;
//! the definition below replaces libc's inside this binary. `RandomState::new()` calls it once per
//! thread (16 bytes) and afterwards uses (k0 + n, k1) for the n-th map created on that thread, so
//! a thread's hash "schedule" is a pure function of the 16 bytes the simulator hands out here.

use std::cell::Cell;
use std::sync::atomic::{AtomicU64, Ordering};

thread_local! {
    static THREAD_KEY: Cell<Option<(u64, u64)>> = const { Cell::new(None) };
    static THREAD_CALLS: Cell<u64> = const { Cell::new(0) };
}

/// Calls that reached the interposed symbol (all threads)
pub static TOTAL_CALLS: AtomicU64 = AtomicU64::new(0);

/// Calls made by a thread that had no key assigned (harness threads; never a task thread)
pub static UNKEYED_CALLS: AtomicU64 = AtomicU64::new(0);

/// Give the calling thread the hash key pair that its std `RandomState` will be seeded from.
/// Must be called before the thread creates its first `HashMap`/`HashSet`.
pub fn set_thread_key(k0: u64, k1: u64) {
    THREAD_KEY.with(|k| k.set(Some((k0, k1))));
}

pub fn thread_calls() -> u64 {
    THREAD_CALLS.with(|c| c.get())
}

/// # Safety
/// Called by std / libc users with a valid buffer of `len` bytes.
#[unsafe(no_mangle)]
pub unsafe extern "C" fn getrandom(buf: *mut u8, len: usize, _flags: u32) -> isize {
    TOTAL_CALLS.fetch_add(1, Ordering::Relaxed);
    let n = THREAD_CALLS.with(|c| {
        let v = c.get();
        c.set(v + 1);
        v
    });
    let (k0, k1) = match THREAD_KEY.with(|k| k.get()) {
        Some(k) => k,
        None => {
            UNKEYED_CALLS.fetch_add(1, Ordering::Relaxed);
            // Deterministic filler for harness threads: their hash order is never observed
            (0x0123_4567_89AB_CDEF, 0x0FED_CBA9_8765_4321)
        }
    };
    // Successive calls on one thread (std makes exactly one) get different but determined bytes
    let words = [
        k0 ^ crate::prng::mix64(n),
        k1 ^ crate::prng::mix64(n.wrapping_add(0x1000)),
    ];
    for i in 0..len {
        let w = if n == 0 {
            [k0, k1][(i / 8) % 2]
        } else {
            words[(i / 8) % 2]
        };
        let byte = (w >> (8 * (i % 8))) as u8;
        // SAFETY: caller guarantees buf..buf+len is writable
        unsafe { *buf.add(i) = byte };
    }
    len as isize
}

/// Iteration order signature of a canary `HashSet` on the calling thread
pub fn canary_signature() -> String {
    let mut set = std::collections::HashSet::new();
    for s in ["a", "b", "c", "d", "e", "f", "g", "h"] {
        set.insert(s);
    }
    set.iter().copied().collect::<Vec<_>>().join("")
}

/// Start-up self check: the seam is live and hash order is a pure function of the key.
/// Returns a description of the failure, which the caller turns into exit code 2.
pub fn self_check() -> Result<(), String> {
    fn on_thread(key: (u64, u64)) -> (u64, String, String) {
        std::thread::spawn(move || {
            set_thread_key(key.0, key.1);
            let before = thread_calls();
            let a = canary_signature();
            let b = canary_signature();
            (thread_calls() - before, a, b)
        })
        .join()
        .unwrap()
    }

    let (calls, a1, _) = on_thread((11, 22));
    if calls != 1 {
        return Err(format!(
            "entropy seam: expected exactly one getrandom call on a fresh thread, saw {calls} \
             (std no longer resolves getrandom through the interposable symbol?)"
        ));
    }
    let (_, a2, _) = on_thread((11, 22));
    if a1 != a2 {
        return Err(format!(
            "entropy seam: same key gave different hash orders ({a1} vs {a2})"
        ));
    }
    let mut distinct = std::collections::BTreeSet::new();
    for k in 1..=6u64 {
        let (_, a, _) = on_thread((k * 7919, k * 104729));
        distinct.insert(a);
    }
    if distinct.len() < 3 {
        return Err(format!(
            "entropy seam: only {} distinct hash orders under 6 keys",
            distinct.len()
        ));
    }
    Ok(())
}
