//! C08 (stub)
use crate::case::Case;
use crate::exec::{Target, TaskSpec};
use crate::plan::Ctx;
use crate::prng::Rng;
use crate::simfs::FsSpec;
pub fn sections(_ctx: &Ctx) -> Vec<(&'static str, u64)> { vec![] }
pub fn cases(_ctx: &Ctx, _s: &str, _i: u64) -> Vec<Case> { vec![] }
pub fn faulted_scenario(_ctx: &Ctx, _rng: &mut Rng, i: u64) -> (String, FsSpec, TaskSpec) {
    let fs = crate::plan::snippet_fs("static const int x = 1;\n");
    let mut t = TaskSpec::compile(0, "test.rssl", Target::Dx);
    t.no_pipeline = true;
    (format!("W4:stub#{i}"), fs, t)
}
