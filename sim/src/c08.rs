//! C08 - compilation is total, in the slice that meets the environment: every realistic source
//! tree under every single fault of the simulated file system, and seeded combinations.
//!
//! The universe of faulted scenarios is a function of the tree under /repo/tests only (fixed
//! lattices, constant universe seed). VERIF_SEED decides which residue class of it the quick
//! tier visits, and every schedule dimension; the thorough tier visits all of it.

use crate::case::Case;
use crate::exec::{ExecSpec, Target, TaskSpec, run_exec};
use crate::plan::{Ctx, STACK_MAIN, STACK_SMALL, Tier, key, snippet_fs, total_case, w1_scenarios};
use crate::prng::Rng;
use crate::simfs::{Fault, FaultKind, FsSpec, Sel};
use crate::w3::{self, Form, Mode};

/// fault universes of one corpus entry are split into this many units (small units keep the
/// hang watchdog meaningful and the load balanced)
fn chunks(tier: Tier) -> u64 {
    match tier {
        Tier::Quick => 8,
        Tier::Thorough => 64,
    }
}
const SNIPPET_BATCH: u64 = 32;
const W3_BATCH: u64 = 25;
/// Constant of the check (not VERIF_SEED): fixes the universe of fault combinations
const UNIVERSE_SEED: u64 = 0x00C0_8C08_2026;

const FAULT_SECTIONS: &[&str] = &[
    "load-error",
    "short-read",
    "flip",
    "lines",
    "file-kinds",
    "guard-lost",
    "combo",
];

pub fn sections(ctx: &Ctx) -> Vec<(&'static str, u64)> {
    let entries = ctx.corpus.entries.len() as u64;
    let w1 = w1_scenarios(&ctx.corpus, true).len() as u64;
    let w5 = (ctx.snippets.len() as u64).div_ceil(SNIPPET_BATCH);
    let w3 = match ctx.tier {
        Tier::Quick => 160,
        Tier::Thorough => 4000,
    } * ctx.scale;
    let w2 = match ctx.tier {
        Tier::Quick => 600,
        Tier::Thorough => 6000,
    } * ctx.scale;
    let mut v = vec![
        ("baseline-w1", w1),
        ("baseline-w5", w5),
        ("baseline-w2", w2),
        ("baseline-tails", crate::w2::TAILS.len() as u64),
    ];
    for s in FAULT_SECTIONS {
        v.push((s, entries * chunks(ctx.tier)));
    }
    v.push(("w3-total", w3));
    v.push(("scaling", SCALING_FAMILIES.len() as u64 * 3));
    v.push(("snippet-tokens", w5));
    v.push(("w2-tokens", W2_TOKEN_PROGRAMS));
    v
}

/// Number of generated programs (from the constant universe seed) whose tokens are lost,
/// duplicated and swapped on a lattice of positions
const W2_TOKEN_PROGRAMS: u64 = 120;

/// E5 at token granularity on the snippets of the repository's own tests: every token lost,
/// duplicated, or exchanged with its successor (a fixed, seed-independent universe)
pub fn token_faults(src: &str) -> Vec<(String, String)> {
    // units: words, punctuation characters, whitespace runs, quoted strings
    let chars: Vec<char> = src.chars().collect();
    let mut units: Vec<String> = Vec::new();
    let mut i = 0;
    while i < chars.len() {
        let c = chars[i];
        let mut j = i + 1;
        if c.is_alphanumeric() || c == '_' {
            while j < chars.len() && (chars[j].is_alphanumeric() || chars[j] == '_' || chars[j] == '.') {
                j += 1;
            }
        } else if c.is_whitespace() {
            while j < chars.len() && chars[j].is_whitespace() {
                j += 1;
            }
        } else if c == '"' {
            while j < chars.len() && chars[j] != '"' {
                j += 1;
            }
            j = (j + 1).min(chars.len());
        }
        units.push(chars[i..j].iter().collect());
        i = j;
    }
    let solid: Vec<usize> = (0..units.len())
        .filter(|k| !units[*k].trim().is_empty())
        .collect();
    let mut out = Vec::new();
    let join = |u: &[String]| u.concat();
    for (n, &k) in solid.iter().enumerate() {
        let mut a = units.clone();
        a.remove(k);
        out.push((format!("lose token #{n} {:?}", units[k]), join(&a)));
        let mut b = units.clone();
        b.insert(k, format!("{} ", units[k]));
        out.push((format!("duplicate token #{n} {:?}", units[k]), join(&b)));
        if let Some(&k2) = solid.get(n + 1) {
            let mut c = units.clone();
            c.swap(k, k2);
            out.push((format!("swap tokens #{n},#{} {:?} {:?}", n + 1, units[k], units[k2]), join(&c)));
        }
    }
    out
}

/// Families of programs with one nesting / repetition parameter n. Compiled at n = 0, 4, 8, 16 the
/// *additional* allocation events (the simulator's logical time) may grow polynomially, not
/// exponentially: "within a time budget proportional to a small polynomial of the input size".
pub const SCALING_FAMILIES: &[&str] = &[
    "if", "if_nobrace", "block", "paren", "else_if", "call", "ternary", "macro_nest", "binop",
    "casts", "macro_chain", "cond_nest", "include_chain", "include_repeat", "index", "unary",
    "macro_self_nest", "macro_self_arg",
];

pub fn scaling_source(family: &str, d: usize) -> FsSpec {
    let rep = |s: &str| s.repeat(d);
    let mut fs = FsSpec::new(crate::simfs::Policy::Flat);
    let main = match family {
        "if" => format!(
            "void f(int x) {{\n{}x = 1;\n{}}}\n",
            (0..d).map(|i| format!("if (x > {i}) {{\n")).collect::<String>(),
            rep("}\n")
        ),
        "if_nobrace" => format!(
            "void f(int x) {{\n{}x = 1;\n}}\n",
            (0..d).map(|i| format!("if (x > {i})\n")).collect::<String>()
        ),
        "block" => format!("void f(int x) {{\n{}x = 1;\n{}}}\n", rep("{\n"), rep("}\n")),
        "paren" => format!("void f(int x) {{ x = {}1{}; }}\n", rep("("), rep(")")),
        "else_if" => format!(
            "void f(int x) {{\n if (x == 0) {{}}\n{}}}\n",
            (1..=d).map(|i| format!(" else if (x == {i}) {{}}\n")).collect::<String>()
        ),
        "call" => format!(
            "int g(int a) {{ return a; }}\nvoid f(int x) {{ x = {}1{}; }}\n",
            rep("g("),
            rep(")")
        ),
        "ternary" => format!(
            "void f(int x) {{ x = {}0; }}\n",
            (0..d).map(|i| format!("x > {i} ? {i} : ")).collect::<String>()
        ),
        "macro_nest" => format!(
            "#define M(a) (a + 1)\nvoid f(int x) {{ x = {}1{}; }}\n",
            rep("M("),
            rep(")")
        ),
        // a self-referential macro under n nested invocations: the name that was left alone once
        // must stay alone at every outer level, or each level doubles the text
        "macro_self_nest" => format!(
            "static const int SELF = 1;\n#define ID(x) x\n#define SELF SELF + SELF\nstatic const int g = {}SELF{};\n",
            rep("ID("),
            rep(")")
        ),
        "macro_self_arg" => format!(
            "static const int SELFA = 1;\n#define ID(x) x\n#define SELFA ID(SELFA) + ID(SELFA)\nstatic const int g = {}SELFA{};\n",
            rep("ID("),
            rep(")")
        ),
        "binop" => format!("void f(int x) {{ x = 1{}; }}\n", rep(" + 1")),
        "casts" => format!("void f(int x) {{ x = {}1; }}\n", rep("(int)")),
        "unary" => format!("void f(int x) {{ x = {}1; }}\n", rep("- ")),
        "index" => format!(
            "static int arr[4];\nvoid f(int x) {{ x = {}0{}; }}\n",
            rep("arr["),
            rep("]")
        ),
        "macro_chain" => format!(
            "#define A0 1\n{}void f(int x) {{ x = A{d}; }}\n",
            (1..=d).map(|i| format!("#define A{i} A{}\n", i - 1)).collect::<String>()
        ),
        "cond_nest" => format!(
            "{}void f(int x) {{ x = 1; }}\n{}",
            rep("#if 1\n"),
            rep("#endif\n")
        ),
        "include_chain" => {
            for i in 1..=d {
                let next = if i < d {
                    format!("#include \"h{}.h\"\n", i + 1)
                } else {
                    String::new()
                };
                fs.files
                    .insert(format!("h{i}.h"), format!("{next}static int v{i};\n"));
            }
            if d > 0 {
                "#include \"h1.h\"\nvoid f(int x) { x = 1; }\n".to_string()
            } else {
                "void f(int x) { x = 1; }\n".to_string()
            }
        }
        "include_repeat" => {
            fs.files.insert("once.h".into(), "#pragma once\nstatic int v;\n".into());
            format!("{}void f(int x) {{ x = 1; }}\n", rep("#include \"once.h\"\n"))
        }
        _ => "void f(int x) { x = 1; }\n".to_string(),
    };
    fs.files.insert("test.rssl".into(), main);
    fs
}

/// Quick tier: how much of each section's universe is visited (1 in `stride`)
fn quick_stride(section: &str) -> u64 {
    match section {
        "load-error" => 3,
        "short-read" => 60,
        "flip" => 16,
        "lines" => 12,
        "file-kinds" => 6,
        "guard-lost" => 2,
        "combo" => 24,
        _ => 1,
    }
}

struct Loaded {
    /// canonical names in first-load order
    files: Vec<String>,
    loads: u64,
}

fn pre_run(fs: &FsSpec, task: &TaskSpec) -> Loaded {
    let mut t = task.clone();
    t.fs = 0;
    t.faults.clear();
    let ex = ExecSpec::single((0x51, 0x52), STACK_MAIN, t);
    let res = run_exec(&ex, std::slice::from_ref(fs));
    let r = &res.results[0][0];
    let mut files = Vec::new();
    for e in &r.events {
        if let Some(c) = &e.resolved
            && !files.contains(c)
        {
            files.push(c.clone());
        }
    }
    Loaded {
        files,
        loads: r.events.len() as u64,
    }
}

fn line_starts(text: &str) -> Vec<usize> {
    std::iter::once(0)
        .chain(text.match_indices('\n').map(|(i, _)| i + 1))
        .filter(|o| *o <= text.len())
        .collect()
}

/// The complete, seed-independent list of fault plans of one section for one corpus entry
fn universe(section: &str, fs: &FsSpec, loaded: &Loaded, entry_key: u64) -> Vec<(String, Vec<Fault>)> {
    let mut out: Vec<(String, Vec<Fault>)> = Vec::new();
    let file = |f: &str| Sel::File(f.to_string());
    match section {
        "load-error" => {
            for k in 0..loaded.loads {
                out.push((
                    format!("not_found@load{k}"),
                    vec![Fault::new(FaultKind::NotFound, Sel::LoadIndex(k))],
                ));
                out.push((
                    format!("not_text@load{k}"),
                    vec![Fault::new(FaultKind::NotText, Sel::LoadIndex(k))],
                ));
            }
        }
        "short-read" => {
            for f in &loaded.files {
                let text = &fs.files[f];
                let starts = line_starts(text);
                for w in starts.windows(2) {
                    let (a, b) = (w[0], w[1]);
                    // at the end of the line (newline lost) and in the middle of the line
                    if b > a + 1 {
                        out.push((
                            format!("short_read {f}@{}", b - 1),
                            vec![Fault::new(FaultKind::ShortRead, file(f)).ab(b as u64 - 1, 0)],
                        ));
                    }
                    if b > a + 3 {
                        let mid = a + (b - a) / 2;
                        out.push((
                            format!("short_read {f}@{mid}"),
                            vec![Fault::new(FaultKind::ShortRead, file(f)).ab(mid as u64, 0)],
                        ));
                    }
                }
            }
        }
        "flip" => {
            // lattice phase from the entry's label, so that adding corpus entries does not move it
            let c = entry_key % 97;
            for f in &loaded.files {
                let len = fs.files[f].len() as u64;
                let mut o = c;
                while o < len {
                    let bit = (o / 97) % 7;
                    out.push((
                        format!("flip_bit {f}@{o}.{bit}"),
                        vec![Fault::new(FaultKind::FlipBit, file(f)).ab(o, bit)],
                    ));
                    o += 97;
                }
            }
        }
        "lines" => {
            for f in &loaded.files {
                let n = fs.files[f].split_inclusive('\n').count() as u64;
                let mut a = 0;
                while a < n {
                    for w in [1u64, 2, 8] {
                        let b = (a + w).min(n);
                        out.push((
                            format!("lose_lines {f}@{a}..{b}"),
                            vec![Fault::new(FaultKind::LoseLines, file(f)).ab(a, b)],
                        ));
                    }
                    out.push((
                        format!("dup_lines {f}@{a}..{}", (a + 2).min(n)),
                        vec![Fault::new(FaultKind::DupLines, file(f)).ab(a, (a + 2).min(n))],
                    ));
                    a += 5;
                }
            }
        }
        "file-kinds" => {
            out.push(("crlf *".into(), vec![Fault::new(FaultKind::Crlf, Sel::All)]));
            for k in 0..4u64 {
                out.push((
                    format!("long_lines#{k} *"),
                    vec![Fault::new(FaultKind::LongLines, Sel::All).ab(0x10a6 + k, 0)],
                ));
            }
            for (n, f) in loaded.files.iter().enumerate() {
                // long non-ASCII lines together with a failure that has to be rendered
                out.push((
                    format!("long_lines + not_found {f}"),
                    vec![
                        Fault::new(FaultKind::LongLines, Sel::All).ab(0x10a6 + n as u64, 0),
                        Fault::new(FaultKind::NotFound, file(f)),
                    ],
                ));
                out.push((
                    format!("long_lines + nul {f}"),
                    vec![
                        Fault::new(FaultKind::LongLines, Sel::All).ab(0x20a6 + n as u64, 0),
                        Fault::new(FaultKind::Nul, file(f)).ab(fs.files[f].len() as u64 / 2, 0),
                    ],
                ));
            }
            out.push(("bom *".into(), vec![Fault::new(FaultKind::Bom, Sel::All)]));
            out.push(("cr *".into(), vec![Fault::new(FaultKind::Cr, Sel::All)]));
            for (fi, f) in loaded.files.iter().enumerate() {
                let text = &fs.files[f];
                out.push((format!("empty {f}"), vec![Fault::new(FaultKind::Empty, file(f))]));
                out.push((format!("crlf {f}"), vec![Fault::new(FaultKind::Crlf, file(f))]));
                out.push((format!("bom {f}"), vec![Fault::new(FaultKind::Bom, file(f))]));
                let starts = line_starts(text);
                for (n, o) in [0usize, text.len() / 3, text.len()].iter().enumerate() {
                    out.push((
                        format!("nul {f}@{o}"),
                        vec![Fault::new(FaultKind::Nul, file(f)).ab(*o as u64, 0)],
                    ));
                    let _ = n;
                }
                out.push((format!("cr {f}"), vec![Fault::new(FaultKind::Cr, file(f))]));
                for (n, o) in [0usize, text.len() / 4, text.len() / 2, text.len()].iter().enumerate() {
                    for c in 0..6u64 {
                        if (n as u64 + c + fi as u64) % 3 != 0 {
                            continue;
                        }
                        out.push((
                            format!("control#{c} {f}@{o}"),
                            vec![Fault::new(FaultKind::Control, file(f)).ab(*o as u64, c)],
                        ));
                    }
                }
                if let Some(o) = starts.get(starts.len() / 2) {
                    out.push((
                        format!("nul {f}@line-start {o}"),
                        vec![Fault::new(FaultKind::Nul, file(f)).ab(*o as u64, 0)],
                    ));
                }
                // E11 hostile metadata
                let other = loaded.files[(fi + 1) % loaded.files.len()].clone();
                let long = "n".repeat(4096);
                for (tag, name) in [
                    ("empty", ""),
                    ("collides", other.as_str()),
                    ("long", long.as_str()),
                    ("newline", "evil\nname.h"),
                    ("colon", "C:\\dir\\x.h:12:3"),
                    ("dotdot", "../shared/common.h"),
                    ("dotdot-deep", "a/../../x.h"),
                    ("only-dotdot", ".."),
                    ("dot", "./"),
                    ("absolute", "/usr/include/x.h"),
                    ("trailing-slash", "dir/"),
                    ("unicode", "h\u{e9}ader \u{2603}.h"),
                    ("unique-per-request", "<unique>"),
                ] {
                    out.push((
                        format!("real_name({tag}) {f}"),
                        vec![Fault::new(FaultKind::RealName, file(f)).text(name)],
                    ));
                }
                // E10 a second physical read sees another version
                let half = &text[..{
                    let mut h = text.len() / 2;
                    while !text.is_char_boundary(h) {
                        h -= 1;
                    }
                    h
                }];
                out.push((
                    format!("stale(truncated) {f}"),
                    vec![Fault::new(FaultKind::Stale, file(f)).text(half)],
                ));
                out.push((
                    format!("stale(grown) {f}"),
                    vec![Fault::new(FaultKind::Stale, file(f))
                        .text(&format!("{text}\nstatic const int stale_version_2 = 2;\n"))],
                ));
            }
        }
        "guard-lost" => {
            for f in &loaded.files {
                let lines: Vec<&str> = fs.files[f].split_inclusive('\n').collect();
                for (i, l) in lines.iter().enumerate() {
                    let t = l.trim();
                    let compact: String = t.chars().filter(|c| !c.is_whitespace()).collect();
                    if compact == "#pragmaonce" {
                        out.push((
                            format!("lose #pragma once {f}@{i}"),
                            vec![Fault::new(FaultKind::LoseLines, file(f)).ab(i as u64, i as u64 + 1)],
                        ));
                    }
                    if compact.starts_with("#ifndef")
                        && lines.get(i + 1).is_some_and(|n| {
                            let n: String = n.chars().filter(|c| !c.is_whitespace()).collect();
                            n.starts_with("#define") && n[7..] == compact[7..]
                        })
                    {
                        out.push((
                            format!("lose guard #define {f}@{}", i + 1),
                            vec![Fault::new(FaultKind::LoseLines, file(f)).ab(i as u64 + 1, i as u64 + 2)],
                        ));
                    }
                }
                // the file includes itself at its first line: a cycle the guard (if any) must stop
                let leaf = f.rsplit('/').next().unwrap_or(f);
                out.push((
                    format!("self-include {f}"),
                    vec![Fault::new(FaultKind::InsertLines, file(f))
                        .ab(0, 0)
                        .text(&format!("#include \"{leaf}\"\n"))],
                ));
            }
        }
        "combo" => {
            // up to three faults of different kinds; the later ones land in files loaded after
            // the first one's file. Drawn from the constant universe seed.
            let per_entry = 1200u64;
            let singles: Vec<Vec<(String, Vec<Fault>)>> = ["short-read", "flip", "lines", "file-kinds"]
                .iter()
                .map(|s| universe(s, fs, loaded, entry_key))
                .collect();
            let mut rng = Rng::new(UNIVERSE_SEED).sub_n("combo", entry_key);
            for _ in 0..per_entry {
                let n = rng.range(2, 3);
                let mut kinds: Vec<usize> = (0..singles.len()).collect();
                rng.shuffle(&mut kinds);
                let mut label = String::new();
                let mut faults = Vec::new();
                let mut min_file = 0usize;
                for k in kinds.into_iter().take(n as usize) {
                    if singles[k].is_empty() {
                        continue;
                    }
                    // bias: pick a plan whose file index is >= the previous one's
                    let mut chosen = None;
                    for _ in 0..6 {
                        let c = &singles[k][rng.below(singles[k].len() as u64) as usize];
                        let fi = match &c.1[0].sel {
                            Sel::File(f) => loaded.files.iter().position(|x| x == f).unwrap_or(0),
                            _ => 0,
                        };
                        if fi >= min_file {
                            chosen = Some((c, fi));
                            break;
                        }
                    }
                    if let Some((c, fi)) = chosen {
                        min_file = fi;
                        if !label.is_empty() {
                            label.push_str(" + ");
                        }
                        label.push_str(&c.0);
                        faults.extend(c.1.iter().cloned());
                    }
                }
                if faults.len() >= 2 {
                    out.push((label, faults));
                }
            }
        }
        _ => {}
    }
    out
}

fn entry_task(ctx: &Ctx, entry_index: usize, n: u64) -> TaskSpec {
    let e = &ctx.corpus.entries[entry_index];
    let target = [Target::Dx, Target::Vk, Target::Msl][(n % 3) as usize];
    ctx.corpus.base_task(e, target, 0)
}

pub fn cases(ctx: &Ctx, section: &str, i: u64) -> Vec<Case> {
    let mut rng = ctx.rng().sub_n(section, i);
    match section {
        "baseline-w1" => {
            let scs = w1_scenarios(&ctx.corpus, true);
            let sc = &scs[i as usize];
            let e = &ctx.corpus.entries[sc.entry];
            let fs = ctx.corpus.trees[e.tree].clone();
            vec![
                total_case(&sc.label, fs.clone(), sc.task.clone(), key(&mut rng), STACK_SMALL),
                total_case(&sc.label, fs, sc.task.clone(), key(&mut rng), STACK_MAIN),
            ]
        }
        "baseline-w2" => {
            // generated container-filling programs (a quarter rejected, some probing the edges of
            // constant evaluation), fault free
            let (label, fs, task) = crate::w2::scenario(&mut rng.sub("w2"), i);
            vec![total_case(&label, fs, task, key(&mut rng), STACK_MAIN)]
        }
        "baseline-tails" => {
            // every program tail alone, under every target, with and without a requested pipeline
            let mut out = Vec::new();
            for t in 0..3 {
                let (label, fs, task) = crate::w2::tail_scenario(i as usize, t);
                out.push(total_case(&label, fs.clone(), task.clone(), key(&mut rng), STACK_MAIN));
                let mut named = task.clone();
                named.pipeline = Some("TailP".into());
                out.push(total_case(&format!("{label}+pipeline=TailP"), fs.clone(), named, key(&mut rng), STACK_MAIN));
                let mut np = task;
                np.no_pipeline = true;
                out.push(total_case(&format!("{label}+no_pipeline"), fs, np, key(&mut rng), STACK_MAIN));
            }
            out
        }
        "baseline-w5" => {
            let lo = (i * SNIPPET_BATCH) as usize;
            let hi = (lo + SNIPPET_BATCH as usize).min(ctx.snippets.len());
            let mut out = Vec::new();
            for (n, src) in ctx.snippets[lo..hi].iter().enumerate() {
                for target in [Target::Dx, Target::Vk, Target::Msl] {
                    let mut t = TaskSpec::compile(0, "test.rssl", target);
                    t.no_pipeline = true;
                    t.buffer_address = target == Target::Vk && (lo + n) % 2 == 0;
                    t.validate_layout = (lo + n) % 3 == 0;
                    out.push(total_case(
                        &format!("W5:snippet#{}@{}", lo + n, target.name()),
                        snippet_fs(src),
                        t,
                        key(&mut rng),
                        STACK_MAIN,
                    ));
                }
            }
            out
        }
        "snippet-tokens" => {
            let lo = (i * SNIPPET_BATCH) as usize;
            let hi = (lo + SNIPPET_BATCH as usize).min(ctx.snippets.len());
            let stride = if ctx.tier == Tier::Quick { 10 } else { 1 };
            let residue = ctx.rng().sub("snippet-tokens").sub_n("residue", i).below(stride);
            let mut out = Vec::new();
            let mut n = 0u64;
            for (si, src) in ctx.snippets[lo..hi].iter().enumerate() {
                for (label, text) in token_faults(src) {
                    n += 1;
                    if n % stride != residue {
                        continue;
                    }
                    let target = [Target::Dx, Target::Vk, Target::Msl][(n % 3) as usize];
                    let mut t = TaskSpec::compile(0, "test.rssl", target);
                    t.no_pipeline = true;
                    t.validate_layout = n % 5 == 0;
                    let mut c = total_case(
                        &format!("W5:snippet#{}@{} {label}", lo + si, target.name()),
                        snippet_fs(&text),
                        t,
                        key(&mut rng),
                        STACK_MAIN,
                    );
                    c.params = crate::json::Json::obj().with("baked_fault", crate::json::Json::Bool(true));
                    out.push(c);
                }
            }
            out
        }
        "w2-tokens" => {
            // the programs come from the constant universe seed, not from VERIF_SEED
            let mut ur = Rng::new(UNIVERSE_SEED).sub_n("w2-tokens", i);
            let (label, fs, task) = crate::w2::scenario(&mut ur, i);
            let src = fs.files.values().next().cloned().unwrap_or_default();
            let stride = if ctx.tier == Tier::Quick { 30 } else { 1 };
            let residue = ctx.rng().sub("w2-tokens").sub_n("residue", i).below(stride);
            let mut out = Vec::new();
            for (n, (what, text)) in token_faults(&src).into_iter().enumerate() {
                let n = n as u64;
                // lattice: every third token position (three faults per position)
                if (n / 3) % 3 != i % 3 || (n / 9) % stride != residue {
                    continue;
                }
                let mut c = total_case(
                    &format!("{label} {what}"),
                    snippet_fs(&text),
                    task.clone(),
                    key(&mut rng),
                    STACK_MAIN,
                );
                c.params = crate::json::Json::obj().with("baked_fault", crate::json::Json::Bool(true));
                out.push(c);
            }
            out
        }
        "scaling" => {
            let family = SCALING_FAMILIES[(i / 3) as usize];
            let target = [Target::Dx, Target::Vk, Target::Msl][(i % 3) as usize];
            let sizes = [0usize, 4, 8, 16];
            let fss: Vec<FsSpec> = sizes.iter().map(|d| scaling_source(family, *d)).collect();
            let tasks: Vec<TaskSpec> = (0..sizes.len())
                .map(|k| {
                    let mut t = TaskSpec::compile(k, "test.rssl", target);
                    t.no_pipeline = true;
                    t
                })
                .collect();
            vec![Case {
                check: "C08".into(),
                kind: "scaling".into(),
                label: format!("scaling:{family}@{} n=0,4,8,16", target.name()),
                fss,
                execs: vec![ExecSpec {
                    threads: vec![crate::exec::ThreadSpec {
                        key: key(&mut rng),
                        stack: STACK_MAIN,
                        tasks,
                    }],
                    sched_seed: 0,
                    schedule: None,
                }],
                params: crate::json::Json::obj(),
            }]
        }
        "w3-total" => {
            let mut out = Vec::new();
            for b in 0..W3_BATCH {
                let n = i * W3_BATCH + b;
                let mut r = ctx.rng().sub_n("w3-total", n);
                let form = if r.chance(1, 2) { Form::Compile } else { Form::Pre };
                let g = w3::generate(&mut r.sub("graph"), Mode::Hostile, form);
                let mut t = w3::compile_task(&g, &mut r.sub("target"));
                let base = crate::model::run(&g.fs, &[], &g.entry, &g.defines);
                if r.chance(2, 3) {
                    t.faults = crate::c12::fault_plan(&mut r.sub("faults"), &g, &base, 3);
                }
                // hostile metadata and stale reads on generated trees
                if r.chance(1, 4) && !base.pasted.is_empty() {
                    let f = r.pick(&base.pasted).clone();
                    let name = ["", "main.rssl", "x\ny", "a:1:1", "../up.h", "a/../../x.h", "..", "/abs.h"]
                        [r.below(8) as usize];
                    t.faults
                        .push(Fault::new(FaultKind::RealName, Sel::File(f)).text(name));
                }
                if r.chance(1, 4) && !base.pasted.is_empty() {
                    let f = r.pick(&base.pasted).clone();
                    // a second physical read of the same file returns another version: shorter,
                    // or longer with a ## paste in the part the first version did not have
                    let v2 = if r.chance(1, 2) {
                        "#if 1\n".to_string()
                    } else {
                        format!(
                            "{}\n#define STALE_CAT(a,b) a##b\nstale_marker STALE_CAT(stale_,tail) STALE_CAT(x,7) ;\n",
                            g.fs.files[&f]
                        )
                    };
                    t.faults
                        .push(Fault::new(FaultKind::Stale, Sel::File(f)).text(&v2));
                }
                if r.chance(1, 8) {
                    t.target = Target::MetalBytecode;
                }
                if r.chance(1, 4) {
                    t.faults
                        .push(Fault::new(FaultKind::LongLines, Sel::All).ab(r.next_u64() >> 20, 0));
                }
                if r.chance(1, 6) {
                    // every file is named differently on every request
                    for f in &base.pasted {
                        t.faults.push(
                            Fault::new(FaultKind::RealName, Sel::File(f.clone())).text("<unique>"),
                        );
                    }
                }
                // 512 KiB in this optimised build holds about as many include levels as the 2 MiB
                // default does in the repository's dev profile (measured: 200 levels fit in 256 KiB)
                let stack = [STACK_SMALL, STACK_MAIN, 512 * 1024][r.below(3) as usize];
                out.push(total_case(
                    &format!("W3:total#{n}"),
                    g.fs.clone(),
                    t,
                    key(&mut r),
                    stack,
                ));
            }
            out
        }
        s if FAULT_SECTIONS.contains(&s) => {
            let nchunks = chunks(ctx.tier);
            let entry_index = (i / nchunks) as usize;
            let chunk = i % nchunks;
            let e = &ctx.corpus.entries[entry_index];
            let fs = &ctx.corpus.trees[e.tree];
            let loaded = pre_run(fs, &entry_task(ctx, entry_index, 0));
            let uni = universe(s, fs, &loaded, crate::prng::fnv64(e.label.as_bytes()));
            let stride = if ctx.tier == Tier::Quick { quick_stride(s) } else { 1 };
            let residue = ctx.rng().sub(s).sub_n("residue", entry_index as u64).below(stride);
            let mut out = Vec::new();
            for (n, (label, faults)) in uni.into_iter().enumerate() {
                let n = n as u64;
                if n % nchunks != chunk || (n / nchunks) % stride != residue {
                    continue;
                }
                let mut t = entry_task(ctx, entry_index, n);
                t.faults = faults;
                let mut r = rng.sub_n("case", n);
                let stack = if n % 2 == 0 { STACK_SMALL } else { STACK_MAIN };
                out.push(total_case(
                    &format!("W1:{}@{} {label}", e.label, t.target.name()),
                    fs.clone(),
                    t,
                    key(&mut r),
                    stack,
                ));
            }
            out
        }
        _ => vec![],
    }
}

/// A faulted scenario for C07's W4 section: the fault plan is part of the input
pub fn faulted_scenario(ctx: &Ctx, rng: &mut Rng, i: u64) -> (String, FsSpec, TaskSpec) {
    if i % 2 == 0 && !ctx.corpus.entries.is_empty() {
        let entry_index = rng.below(ctx.corpus.entries.len() as u64) as usize;
        let e = &ctx.corpus.entries[entry_index];
        let fs = ctx.corpus.trees[e.tree].clone();
        let loaded = pre_run(&fs, &entry_task(ctx, entry_index, 0));
        let section = *rng.pick(&["load-error", "short-read", "flip", "lines", "file-kinds"]);
        let uni = universe(section, &fs, &loaded, crate::prng::fnv64(e.label.as_bytes()));
        let mut t = entry_task(ctx, entry_index, rng.below(3));
        let mut label = format!("W4:{}@{}", e.label, t.target.name());
        if !uni.is_empty() {
            let (l, f) = &uni[rng.below(uni.len() as u64) as usize];
            t.faults = f.clone();
            label = format!("{label} {l}");
        }
        (label, fs, t)
    } else {
        let form = if rng.chance(1, 2) { Form::Compile } else { Form::Pre };
        let g = w3::generate(&mut rng.sub("graph"), Mode::Hostile, form);
        let mut t = w3::compile_task(&g, &mut rng.sub("target"));
        let base = crate::model::run(&g.fs, &[], &g.entry, &g.defines);
        t.faults = crate::c12::fault_plan(&mut rng.sub("faults"), &g, &base, 3);
        (format!("W4:graph#{i}"), g.fs.clone(), t)
    }
}
