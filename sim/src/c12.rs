//! C12 (stub)
use crate::case::{Case, Report};
use crate::plan::Ctx;
pub fn sections(_ctx: &Ctx) -> Vec<(&'static str, u64)> { vec![] }
pub fn cases(_ctx: &Ctx, _s: &str, _i: u64) -> Vec<Case> { vec![] }
pub fn judge(_case: &Case, _rep: &mut Report) {}
