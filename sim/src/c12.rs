//! C12 - inclusion and define placement: refinement against the reference model.

use crate::case::{Case, Finding, Report, first_difference};
use crate::exec::{Api, ExecSpec, OutcomeKind, TaskResult, run_exec};
use crate::json::Json;
use crate::model::{self, FailKind, ModelRun, Verdict};
use crate::plan::{Ctx, STACK_MAIN, STACK_SMALL, Tier, key};
use crate::prng::{Rng, fnv64};
use crate::simfs::{Fault, FaultKind, FsSpec, Sel};
use crate::w3::{self, Form, Graph, Mode};

const BATCH: u64 = 50;

pub fn sections(ctx: &Ctx) -> Vec<(&'static str, u64)> {
    let (plain, hostile, compile, defplace) = match ctx.tier {
        Tier::Quick => (300, 600, 150, 100),
        Tier::Thorough => (8_000, 24_000, 4_000, 4_000),
    };
    let split = match ctx.tier {
        Tier::Quick => 20,
        Tier::Thorough => 400,
    };
    vec![
        ("plain", plain * ctx.scale),
        ("hostile", hostile * ctx.scale),
        ("compile", compile * ctx.scale),
        ("defplace", defplace * ctx.scale),
        ("split", split * ctx.scale),
    ]
}

/// Pick a fault plan for a graph from what its fault-free model run touched
pub fn fault_plan(rng: &mut Rng, g: &Graph, base: &ModelRun, max: u64) -> Vec<Fault> {
    let mut out = Vec::new();
    let n = rng.range(1, max);
    for _ in 0..n {
        let strings: Vec<&str> = base.walk.iter().map(|s| s.string.as_str()).collect();
        let files: Vec<&String> = base.pasted.iter().collect();
        let pick_file = |rng: &mut Rng| -> Option<String> {
            if files.is_empty() {
                None
            } else {
                Some((*rng.pick(&files)).clone())
            }
        };
        let f = match rng.below(9) {
            0 | 1 => {
                if strings.is_empty() {
                    continue;
                }
                let kind = if rng.chance(1, 2) {
                    FaultKind::NotFound
                } else {
                    FaultKind::NotText
                };
                Fault::new(kind, Sel::IncludeString(rng.pick(&strings).to_string()))
            }
            2 => {
                let Some(f) = pick_file(rng) else { continue };
                Fault::new(FaultKind::NotFound, Sel::File(f))
            }
            3 => {
                // lost tail: cut at a line boundary
                let Some(f) = pick_file(rng) else { continue };
                let text = &g.fs.files[&f];
                let bounds: Vec<usize> = text
                    .match_indices('\n')
                    .map(|(i, _)| i + 1)
                    .chain(std::iter::once(0))
                    .collect();
                let o = *rng.pick(&bounds);
                Fault::new(FaultKind::ShortRead, Sel::File(f)).ab(o as u64, 0)
            }
            4 | 5 => {
                let Some(f) = pick_file(rng) else { continue };
                let lines = g.fs.files[&f].split_inclusive('\n').count() as u64;
                if lines == 0 {
                    continue;
                }
                let a = rng.below(lines);
                let b = (a + rng.range(1, 3)).min(lines);
                let kind = if rng.chance(1, 2) {
                    FaultKind::LoseLines
                } else {
                    FaultKind::DupLines
                };
                Fault::new(kind, Sel::File(f)).ab(a, b)
            }
            6 => {
                let Some(f) = pick_file(rng) else { continue };
                Fault::new(FaultKind::Empty, Sel::File(f))
            }
            7 => Fault::new(FaultKind::Crlf, Sel::All),
            _ => {
                let Some(f) = pick_file(rng) else { continue };
                let text = &g.fs.files[&f];
                let starts: Vec<usize> = std::iter::once(0)
                    .chain(text.match_indices('\n').map(|(i, _)| i + 1))
                    .filter(|o| *o < text.len())
                    .collect();
                if starts.is_empty() {
                    continue;
                }
                let o = *rng.pick(&starts);
                Fault::new(FaultKind::Nul, Sel::File(f)).ab(o as u64, 0)
            }
        };
        out.push(f);
    }
    out
}

fn refine_case(label: &str, g: &Graph, faults: Vec<Fault>, api: Api, rng: &mut Rng) -> Case {
    let mut task = match api {
        Api::Preprocess => w3::preprocess_task(g),
        Api::Compile => w3::compile_task(g, &mut rng.sub("target")),
    };
    task.faults = faults;
    let stack = if rng.chance(1, 2) { STACK_SMALL } else { STACK_MAIN };
    let mut fss = vec![g.fs.clone()];
    let mut ex = ExecSpec::single(key(rng), stack, task);
    // History: a quarter of the subjects run on a thread on which a compile has just failed
    // *inside an included file* (missing nested include, a byte the lexer rejects, a macro with
    // the wrong number of arguments), with tokens of that file still pending. What the model says
    // about the subject does not depend on what the thread did before.
    let mut h = rng.sub("history");
    if h.chance(1, 4) {
        let tail = ["#include \"missing.h\"", "@", "#define PF(a) a\npending PF(1,2) ;"][h.below(3) as usize];
        let mut pfs = FsSpec::new(crate::simfs::Policy::Flat);
        pfs.files.insert(
            "main.rssl".into(),
            "#define POISON 1\n#include \"poison.h\"\nafter_poison ;\n".into(),
        );
        pfs.files.insert(
            "poison.h".into(),
            format!("poison_a poison_b\n  poison_c (\n{tail}\nnever_reached ;\n"),
        );
        fss.push(pfs);
        let mut pt = ex.threads[0].tasks[0].clone();
        pt.fs = fss.len() - 1;
        pt.entry = "main.rssl".into();
        pt.faults.clear();
        pt.defines.clear();
        pt.subject = false;
        ex.threads[0].tasks.insert(0, pt);
    }
    Case {
        check: "C12".into(),
        kind: "refine".into(),
        label: label.to_string(),
        fss,
        execs: vec![ex],
        params: Json::obj().with("mode", Json::s(&format!("{:?}", g.mode))),
    }
}

pub fn cases(ctx: &Ctx, section: &str, unit: u64) -> Vec<Case> {
    let mut out = Vec::new();
    for b in 0..BATCH {
        let i = unit * BATCH + b;
        let mut rng = ctx.rng().sub_n(section, i);
        match section {
            "plain" => {
                let g = w3::generate(&mut rng.sub("graph"), Mode::Plain, Form::Pre);
                out.push(refine_case(
                    &format!("W3:plain#{i}"),
                    &g,
                    vec![],
                    Api::Preprocess,
                    &mut rng,
                ));
            }
            "hostile" => {
                let g = w3::generate(&mut rng.sub("graph"), Mode::Hostile, Form::Pre);
                let faults = if rng.chance(1, 2) {
                    let base = model::run(&g.fs, &[], &g.entry, &g.defines);
                    fault_plan(&mut rng.sub("faults"), &g, &base, 3)
                } else {
                    vec![]
                };
                out.push(refine_case(
                    &format!("W3:hostile#{i}"),
                    &g,
                    faults,
                    Api::Preprocess,
                    &mut rng,
                ));
            }
            "compile" => {
                let mode = if rng.chance(1, 2) { Mode::Plain } else { Mode::Hostile };
                let g = w3::generate(&mut rng.sub("graph"), mode, Form::Compile);
                let faults = if rng.chance(1, 3) {
                    let base = model::run(&g.fs, &[], &g.entry, &g.defines);
                    fault_plan(&mut rng.sub("faults"), &g, &base, 2)
                } else {
                    vec![]
                };
                out.push(refine_case(
                    &format!("W3:compile#{i}"),
                    &g,
                    faults,
                    Api::Compile,
                    &mut rng,
                ));
            }
            "defplace" => out.push(defplace_case(&mut rng, i)),
            "split" => {
                // a whole generated program (functions, overloads, templates, resources,
                // pipelines) as one file; the oracle cuts it into included files
                let (label, fs, task) = crate::w2::scenario(&mut rng.sub("w2"), i);
                out.push(Case {
                    check: "C12".into(),
                    kind: "split".into(),
                    label: format!("{label}+split"),
                    fss: vec![fs],
                    execs: vec![ExecSpec::single(key(&mut rng), STACK_MAIN, task)],
                    params: Json::obj().with("split_seed", Json::u(rng.next_u64() >> 12)),
                });
            }
            _ => {}
        }
    }
    out
}

/// API-level defines must behave like #define lines placed before the first line
fn defplace_case(rng: &mut Rng, i: u64) -> Case {
    let form = if rng.chance(1, 4) { Form::Compile } else { Form::Pre };
    let mode = if rng.chance(1, 2) { Mode::Plain } else { Mode::Hostile };
    let mut g = w3::generate(&mut rng.sub("graph"), mode, form);
    // make sure there is something to place
    let mut d = rng.sub("defines");
    while g.defines.len() < 2 {
        let name = ["A", "B", "C", "D", "E", "F"][d.below(6) as usize];
        if g.defines.iter().any(|(n, _)| n == name) {
            continue;
        }
        let v = match d.below(5) {
            0 => String::new(),
            1 => "p".to_string(),
            2 => "u".to_string(),
            3 => d.range(0, 9).to_string(),
            _ => ["A", "B", "C"][d.below(3) as usize].to_string(),
        };
        g.defines.push((name.to_string(), v));
    }
    // a use next to ## (where the unlocated-token panic lived): CAT(X, 1) with X defined on the API
    if form == Form::Pre && d.chance(1, 2) {
        let (name, value) = g.defines[0].clone();
        let entry = g.fs.files.get_mut(&g.entry).unwrap();
        if !entry.contains("#define CAT(a,b) a##b") {
            entry.insert_str(0, "#define CAT(a,b) a##b\n");
        }
        if value.chars().all(|c| c.is_ascii_alphabetic()) && !value.is_empty() {
            entry.push_str(&format!("\nm_cat_1 CAT({name},1) ;\n"));
        }
    }
    // a define whose value is its own name leaves the text alone but is still *defined*
    if d.chance(1, 5) {
        let name = ["A", "B", "C", "D", "E", "F"][d.below(6) as usize];
        if !g.defines.iter().any(|(n, _)| n == name) {
            g.defines.push((name.to_string(), name.to_string()));
            let entry = g.fs.files.get_mut(&g.entry).unwrap();
            if !entry.ends_with('\n') {
                entry.push('\n');
            }
            entry.push_str(&match form {
                Form::Pre => format!("#ifdef {name}\nm_selfdef_yes 1 ;\n#else\nm_selfdef_no 2 ;\n#endif\n"),
                Form::Compile => format!("#ifdef {name}\nstatic const int m_selfdef_yes = 1 ;\n#else\nstatic const int m_selfdef_no = 2 ;\n#endif\n"),
            });
        }
    }
    // a caller may pass a name that compile() also defines itself: like a #define line, the
    // caller's value counts
    if form == Form::Compile && d.chance(1, 2) {
        let name = ["RSSL_TARGET_MSL", "RSSL_TARGET_HLSL", "__HLSL_VERSION"][d.below(3) as usize];
        g.defines.push((name.to_string(), d.range(3, 9).to_string()));
        let entry = g.fs.files.get_mut(&g.entry).unwrap();
        if !entry.ends_with('\n') {
            entry.push('\n');
        }
        entry.push_str(&format!("static const int m_builtin_{} = {name} + 0 ;\n", d.range(1, 99)));
    }
    d.shuffle(&mut g.defines);

    let mut t = match form {
        Form::Pre => w3::preprocess_task(&g),
        Form::Compile => {
            let mut t = w3::compile_task(&g, &mut rng.sub("target"));
            t.target = crate::exec::Target::Dx;
            t
        }
    };
    t.defines = g.defines.clone();
    Case {
        check: "C12".into(),
        kind: "defplace".into(),
        label: format!("W3:defplace#{i}"),
        fss: vec![g.fs.clone()],
        execs: vec![ExecSpec::single(key(rng), STACK_MAIN, t)],
        params: Json::obj(),
    }
}

fn finding(class: &str, fingerprint: &str, detail: String) -> Finding {
    Finding {
        property: "C12".into(),
        class: class.into(),
        fingerprint: fingerprint.into(),
        detail,
    }
}

/// History invariants over the handler's event log (DESIGN 4 C12, check 2)
fn history(case: &Case, r: &TaskResult, m: &ModelRun, rep: &mut Report) {
    // (c) parent_name equals the real_name the handler returned for the including file
    let mut real_names: Vec<&str> = vec![""];
    for (i, e) in r.events.iter().enumerate() {
        if i == 0 {
            if !e.parent_name.is_empty() {
                rep.findings.push(finding(
                    "history",
                    "parent-name",
                    format!("{}: entry request carries parent {:?}", case.label, e.parent_name),
                ));
            }
        } else if !real_names.contains(&e.parent_name.as_str()) || e.parent_name.is_empty() {
            rep.findings.push(finding(
                "history",
                "parent-name",
                format!(
                    "{}: request #{i} for {:?} names parent {:?}, which is not the real_name of any file handed out before",
                    case.label, e.file_name, e.parent_name
                ),
            ));
        }
        if e.response == "data" {
            real_names.push(e.real_name.as_str());
        }
    }
    // (d) nothing follows an error response, and an error response makes the call fail
    if let Some(pos) = r.events.iter().position(|e| e.response != "data") {
        if pos + 1 != r.events.len() {
            rep.findings.push(finding(
                "history",
                "request-after-error",
                format!("{}: {} requests follow an error response", case.label, r.events.len() - pos - 1),
            ));
        }
        if r.kind == OutcomeKind::Ok {
            rep.findings.push(finding(
                "history",
                "error-swallowed",
                format!(
                    "{}: handler answered {:?} with an error but the call returned Ok",
                    case.label, r.events[pos].file_name
                ),
            ));
        }
    }
    if matches!(m.verdict, Verdict::Unmodelled(_)) {
        return;
    }
    // (a) no invention: requests (after the entry) are a subsequence of the model's walk
    let mut wi = 0usize;
    for (i, e) in r.events.iter().enumerate().skip(1) {
        let mut found = false;
        while wi < m.walk.len() {
            let w = &m.walk[wi];
            wi += 1;
            if w.string == e.file_name && w.parent == e.parent_name {
                found = true;
                break;
            }
        }
        if !found {
            rep.findings.push(finding(
                "history",
                "invented-request",
                format!(
                    "{}: request #{i} ({:?} from {:?}) is not justified by an active #include the model reaches at that point",
                    case.label, e.file_name, e.parent_name
                ),
            ));
            return;
        }
    }
    // (b) no silent skip: the first active include of each distinct include string is requested.
    // Only judged when both sides agree the run got that far (same verdict class).
    let impl_failed = r.kind != OutcomeKind::Ok;
    let model_failed = !matches!(m.verdict, Verdict::Ok(_));
    if impl_failed == model_failed {
        let mut seen: Vec<&str> = Vec::new();
        for w in &m.walk {
            if seen.contains(&w.string.as_str()) {
                continue;
            }
            seen.push(&w.string);
            if !r.events.iter().skip(1).any(|e| e.file_name == w.string) {
                rep.findings.push(finding(
                    "history",
                    "skipped-first-request",
                    format!(
                        "{}: the active #include of {:?} in {:?} was never requested from the handler",
                        case.label, w.string, w.parent
                    ),
                ));
                return;
            }
        }
    }
}

pub fn judge(case: &Case, rep: &mut Report) {
    match case.kind.as_str() {
        "refine" => refine(case, rep),
        "defplace" => defplace(case, rep),
        "split" => split(case, rep),
        _ => {}
    }
}

fn scenario_digest(case: &Case) -> u64 {
    fnv64(
        Json::Arr(vec![
            Json::Arr(case.fss.iter().map(|f| f.to_json()).collect()),
            case.execs[0].threads[0].tasks.last().map(|t| t.to_json()).unwrap_or(Json::Null),
        ])
        .dump()
        .as_bytes(),
    )
}

fn refine(case: &Case, rep: &mut Report) {
    let ex = &case.execs[0];
    // the subject is the last task of the thread (a failing predecessor may run before it)
    let ti = ex.threads[0].tasks.len() - 1;
    let task = &ex.threads[0].tasks[ti];
    let fs: &FsSpec = &case.fss[task.fs];
    let res = run_exec(ex, &case.fss);
    rep.history_digests.insert(res.history_digest);
    let r = &res.results[0][ti];
    rep.absorb_task(r);
    if ti > 0 {
        rep.count("subjects_run_after_a_compile_that_failed_inside_an_include", 1);
    }
    let digest = scenario_digest(case);
    rep.scenario_digests.insert(digest);

    let m = model::run(fs, &task.faults, &task.entry, &task.defines);
    let fired = r.events.iter().any(|e| !e.fired.is_empty());
    if !m.walk.is_empty()
        && (m.once_skips > 0 || m.cross_file_redefs > 0 || fired || m.pasted.len() >= 3)
    {
        rep.nontrivial.insert(digest);
    }
    rep.count("once_skips", m.once_skips as u64);
    if m.self_references > 0 {
        rep.count("graphs_with_self_referential_macro_use", 1);
    }
    rep.count("cross_file_redefinitions", m.cross_file_redefs as u64);
    rep.count("includes_followed", m.walk.len() as u64);
    if m.max_depth >= 3 {
        rep.count("graphs_with_include_depth_3_or_more", 1);
    }
    let config = case.params.gs("mode");
    rep.count(&format!("judged_in_{}_configuration", config.to_lowercase()), 1);

    if r.kind == OutcomeKind::Panic {
        rep.findings.push(finding(
            "panic",
            &r.panic_site,
            format!("{}: {}", case.label, r.text),
        ));
        return;
    }
    history(case, r, &m, rep);

    match &m.verdict {
        Verdict::Unmodelled(why) => {
            rep.count(&format!("unmodelled: {why}"), 1);
        }
        Verdict::Fail(f) => {
            rep.count(&format!("model_fail_{}", kind_tag(&f.kind)), 1);
            if r.kind == OutcomeKind::Ok {
                rep.findings.push(finding(
                    "refinement",
                    "verdict:model-fail/impl-ok",
                    format!(
                        "{}: textual inclusion fails ({:?} at {:?}) but rssl returned Ok",
                        case.label, f.kind, f.at
                    ),
                ));
            } else if let FailKind::Load(name) = &f.kind {
                // E1/E2 on string n => Err whose text contains n
                if !r.text.contains(name.as_str()) {
                    // only a finding if the model's failure is the first thing that goes wrong,
                    // which it is by construction of the walk
                    rep.findings.push(finding(
                        "refinement",
                        "load-error-does-not-name-file",
                        format!(
                            "{}: loading {:?} fails but the diagnostic does not mention it: {:?}",
                            case.label,
                            name,
                            r.text.lines().nth(1).unwrap_or("")
                        ),
                    ));
                }
            }
        }
        Verdict::Ok(toks) => {
            rep.count("model_ok", 1);
            match task.api {
                Api::Preprocess => {
                    if r.kind != OutcomeKind::Ok {
                        rep.findings.push(finding(
                            "refinement",
                            "verdict:model-ok/impl-err",
                            format!(
                                "{}: textual inclusion succeeds but rssl failed: {:?}",
                                case.label,
                                r.text.lines().nth(1).unwrap_or("")
                            ),
                        ));
                        return;
                    }
                    let mut expect = String::from("Ok tokens\n");
                    for t in toks {
                        expect.push_str(&t.render());
                        expect.push('\n');
                    }
                    if expect != r.text {
                        rep.findings.push(finding(
                            "refinement",
                            "tokens-differ",
                            format!(
                                "{}: token stream differs from textual inclusion at {} (model vs rssl)",
                                case.label,
                                first_difference(&expect, &r.text)
                            ),
                        ));
                    }
                }
                Api::Compile => match model::compile_form_verdict(toks) {
                    None => rep.count("compile_form_shape_unknown", 1),
                    Some(Ok(())) => {
                        rep.count("compile_form_ok", 1);
                        if r.kind != OutcomeKind::Ok {
                            rep.findings.push(finding(
                                "refinement",
                                "compile-verdict:model-ok/impl-err",
                                format!(
                                    "{}: the pasted program is valid but compile() failed: {:?}",
                                    case.label,
                                    r.text.lines().nth(1).unwrap_or("")
                                ),
                            ));
                        }
                    }
                    Some(Err(_)) => {
                        rep.count("compile_form_err", 1);
                        if r.kind == OutcomeKind::Ok {
                            rep.findings.push(finding(
                                "refinement",
                                "compile-verdict:model-err/impl-ok",
                                format!(
                                    "{}: the pasted program redefines or uses an undeclared name but compile() returned Ok",
                                    case.label
                                ),
                            ));
                        }
                    }
                },
            }
        }
    }
}

fn kind_tag(k: &FailKind) -> &'static str {
    match k {
        FailKind::Load(_) => "load",
        FailKind::Lex => "lex",
        FailKind::Condition => "condition",
        FailKind::Chain => "chain",
        FailKind::Depth => "depth",
        FailKind::Macro => "macro",
    }
}

fn defplace(case: &Case, rep: &mut Report) {
    // Variant B is derived here, never stored: the same tree with the defines written as
    // #define lines in front of the entry file, and no API-level defines
    let ex_a = &case.execs[0];
    let task_a = &ex_a.threads[0].tasks[0];
    let mut fss = case.fss.clone();
    let mut fs_b = fss[task_a.fs].clone();
    let mut prefix = String::new();
    for (n, v) in &task_a.defines {
        prefix.push_str(format!("#define {n} {v}").trim_end());
        prefix.push('\n');
    }
    let Some(canonical) = fs_b.resolve(&task_a.entry, "") else {
        rep.count("defplace_entry_missing", 1);
        return;
    };
    // If the entry file is included again (a cycle through the entry), lines written in it are
    // executed again while API-level defines are not: the two placements legitimately differ
    // (decided from the load history of the run itself, so it does not depend on the model)
    {
        let res = run_exec(ex_a, &fss);
        let r = &res.results[0][0];
        if r
            .events
            .iter()
            .skip(1)
            .any(|e| e.resolved.as_deref() == Some(canonical.as_str()))
        {
            rep.count("defplace_skipped_entry_included_again", 1);
            return;
        }
    }
    let e = fs_b.files.get_mut(&canonical).unwrap();
    *e = format!("{prefix}{e}");
    fss.push(fs_b);
    let mut ex_b = ex_a.clone();
    ex_b.threads[0].tasks[0].fs = fss.len() - 1;
    ex_b.threads[0].tasks[0].defines.clear();
    ex_b.threads[0].key = (ex_a.threads[0].key.1, ex_a.threads[0].key.0);

    let mut texts: Vec<TaskResult> = Vec::new();
    for ex in [ex_a, &ex_b] {
        let res = run_exec(ex, &fss);
        rep.history_digests.insert(res.history_digest);
        let r = res.results.into_iter().next().unwrap().into_iter().next().unwrap();
        rep.absorb_task(&r);
        texts.push(r);
    }
    let digest = scenario_digest(case);
    rep.scenario_digests.insert(digest);
    rep.nontrivial.insert(digest);
    rep.count("define_placements_compared", 1);
    for r in &texts {
        if r.kind == OutcomeKind::Panic {
            rep.findings.push(finding(
                "panic",
                &r.panic_site,
                format!("{}: {}", case.label, r.text),
            ));
            return;
        }
    }
    let (a, b) = (&texts[0], &texts[1]);
    let same = if a.kind == OutcomeKind::Ok && b.kind == OutcomeKind::Ok {
        a.text == b.text
    } else {
        // diagnostics of the two placements carry different positions: compare the verdict
        a.kind == b.kind
    };
    if !same {
        rep.findings.push(finding(
            "define-placement",
            &format!("{}/{}", a.kind_name(), b.kind_name()),
            format!(
                "{}: defines passed through the API and the same defines as #define lines before the first line differ at {}",
                case.label,
                first_difference(&a.text, &b.text)
            ),
        ));
    }
}

/// "#include is equivalent to pasting the file's contents at that point", at the level of what
/// compile() returns: a one-file program and the same text cut at top-level line boundaries into
/// files that include one another must give the same sources, metadata and verdict (and, when
/// rejected, the same message). The cut is derived here from `split_seed`, never stored.
fn split(case: &Case, rep: &mut Report) {
    let ex_a = &case.execs[0];
    let task_a = &ex_a.threads[0].tasks[0];
    let Some(src) = case.fss[task_a.fs].files.get(&task_a.entry) else {
        return;
    };
    let digest = scenario_digest(case);
    rep.scenario_digests.insert(digest);
    let mut rng = Rng::new(case.params.gu("split_seed")).sub("split");
    let lines: Vec<&str> = src.split_inclusive('\n').collect();
    // line indices at which the text is at brace depth 0
    let mut cuts: Vec<usize> = Vec::new();
    let mut depth = 0i64;
    for (i, l) in lines.iter().enumerate() {
        if depth == 0 && i > 0 {
            cuts.push(i);
        }
        for c in l.chars() {
            match c {
                '{' => depth += 1,
                '}' => depth -= 1,
                _ => {}
            }
        }
    }
    if cuts.is_empty() {
        rep.count("split_not_judged_nothing_to_cut", 1);
        return;
    }
    rng.shuffle(&mut cuts);
    let k = (rng.range(1, 9) as usize).min(cuts.len());
    let mut chosen: Vec<usize> = cuts[..k].to_vec();
    chosen.sort();
    let mut bounds = vec![0usize];
    bounds.extend(chosen);
    bounds.push(lines.len());
    let chunks: Vec<String> = bounds.windows(2).map(|w| lines[w[0]..w[1]].concat()).collect();
    // main keeps some chunks inline and includes the others; an included chunk may itself include
    // the chunk that follows it (at its end), which is the same text order
    let mut fs_b = FsSpec::new(crate::simfs::Policy::Flat);
    let mut main = String::new();
    let mut i = 0;
    while i < chunks.len() {
        // (text kept in the entry file is registered before any included file, whatever the
        // order in which the compiler meets it)
        if rng.chance(2, 5) {
            main.push_str(&chunks[i]);
            if !chunks[i].ends_with('\n') {
                main.push('\n');
            }
            i += 1;
            continue;
        }
        let mut body = chunks[i].clone();
        if !body.ends_with('\n') {
            body.push('\n');
        }
        let name = format!("part{i}.h");
        main.push_str(&format!("#include \"{name}\"\n"));
        let mut j = i + 1;
        let mut owner = name.clone();
        let mut pending = body;
        while j < chunks.len() && rng.chance(1, 3) {
            let inner = format!("part{j}.h");
            pending.push_str(&format!("#include \"{inner}\"\n"));
            fs_b.files.insert(owner, pending);
            owner = inner;
            pending = chunks[j].clone();
            if !pending.ends_with('\n') {
                pending.push('\n');
            }
            j += 1;
        }
        fs_b.files.insert(owner, pending);
        i = j;
    }
    // "a #pragma once file contributes once per compilation": a third of the cuts mark every part
    // and include some of them again further down
    if rng.chance(1, 3) {
        let names: Vec<String> = fs_b.files.keys().cloned().collect();
        for n in &names {
            let body = fs_b.files.get_mut(n).unwrap();
            *body = format!("#pragma once\n{body}");
        }
        for _ in 0..rng.range(1, 3) {
            if let Some(n) = names.get(rng.below(names.len().max(1) as u64) as usize) {
                main.push_str(&format!("#include \"{n}\"\n"));
            }
        }
        rep.count("cuts_with_pragma_once_parts_included_again", 1);
    }
    fs_b.files.insert(task_a.entry.clone(), main);
    let mut fss = case.fss.clone();
    fss.push(fs_b);
    let mut ex_b = ex_a.clone();
    ex_b.threads[0].tasks[0].fs = fss.len() - 1;

    let mut rs: Vec<TaskResult> = Vec::new();
    for ex in [ex_a, &ex_b] {
        let res = run_exec(ex, &fss);
        rep.history_digests.insert(res.history_digest);
        let r = res.results.into_iter().next().unwrap().into_iter().next().unwrap();
        rep.absorb_task(&r);
        rs.push(r);
    }
    // "Invoking an object-like macro yields its body": the same program with one to four of its
    // words (any word that occurs at least twice outside string literals - names, types,
    // keywords) replaced everywhere by fresh object-like macros defined in front of it. Every
    // replaced occurrence then comes out of one macro body, i.e. out of the same few bytes of
    // source, which is exactly what a compiler must not key anything on.
    {
        let mut mr = Rng::new(case.params.gu("split_seed")).sub("macroise");
        let mut words: std::collections::BTreeMap<String, u32> = Default::default();
        let mut in_string = false;
        let mut cur = String::new();
        for c in src.chars().chain(std::iter::once(' ')) {
            if c == '"' {
                in_string = !in_string;
            }
            if !in_string && (c.is_ascii_alphanumeric() || c == '_') {
                cur.push(c);
            } else {
                if !cur.is_empty() && !cur.starts_with(|x: char| x.is_ascii_digit()) {
                    *words.entry(std::mem::take(&mut cur)).or_insert(0) += 1;
                }
                cur.clear();
            }
        }
        let mut frequent: Vec<String> = words.into_iter().filter(|(_, n)| *n >= 2).map(|(w, _)| w).collect();
        mr.shuffle(&mut frequent);
        frequent.truncate(mr.range(1, 4) as usize);
        if !frequent.is_empty() {
            let mut out = String::new();
            for (k, w) in frequent.iter().enumerate() {
                out.push_str(&format!("#define ZM{k}_ {w}\n"));
            }
            let mut in_string = false;
            let mut cur = String::new();
            for c in src.chars().chain(std::iter::once('\n')) {
                if c == '"' {
                    in_string = !in_string;
                }
                if !in_string && (c.is_ascii_alphanumeric() || c == '_') {
                    cur.push(c);
                } else {
                    if !cur.is_empty() {
                        match frequent.iter().position(|w| *w == cur) {
                            Some(k) => out.push_str(&format!("ZM{k}_")),
                            None => out.push_str(&cur),
                        }
                        cur.clear();
                    }
                    out.push(c);
                }
            }
            let mut fs_m = case.fss[task_a.fs].clone();
            fs_m.files.insert(task_a.entry.clone(), out);
            let mut fss_m = case.fss.clone();
            fss_m.push(fs_m);
            let mut ex_m = ex_a.clone();
            ex_m.threads[0].tasks[0].fs = fss_m.len() - 1;
            let res = run_exec(&ex_m, &fss_m);
            let m = res.results.into_iter().next().unwrap().into_iter().next().unwrap();
            rep.absorb_task(&m);
            rep.count("programs_with_words_replaced_by_macros", 1);
            let a = &rs[0];
            let msg = |r: &TaskResult| -> String {
                r.text
                    .lines()
                    .find_map(|l| l.find("error: ").map(|p| l[p..].to_string()))
                    .unwrap_or_default()
            };
            let differs = if m.kind == OutcomeKind::Panic || a.kind == OutcomeKind::Panic {
                !(m.kind == a.kind && m.panic_site == a.panic_site)
            } else if a.kind != m.kind {
                true
            } else if a.kind == OutcomeKind::Ok {
                a.text != m.text
            } else {
                msg(a) != msg(&m)
            };
            if differs {
                rep.findings.push(finding(
                    "macro-vs-text",
                    "compile-output",
                    format!(
                        "{}: replacing the words {frequent:?} by object-like macros changes what compile() returns at {}",
                        case.label,
                        crate::case::first_difference(&a.text, &m.text)
                    ),
                ));
                return;
            }
        }
    }
    rep.count("programs_cut_into_included_files", 1);
    rep.count("files_after_the_cut", fss[fss.len() - 1].files.len() as u64);
    rep.nontrivial.insert(digest);
    let (a, b) = (&rs[0], &rs[1]);
    for r in [a, b] {
        if r.kind == OutcomeKind::Panic {
            // totality is C08's business; an equal panic on both sides is not a difference
            if a.kind == b.kind && a.panic_site == b.panic_site {
                rep.count("split_not_judged_both_panic", 1);
                return;
            }
            rep.findings.push(finding("panic", &r.panic_site, format!("{}: {}", case.label, r.text)));
            return;
        }
    }
    let message = |r: &TaskResult| -> String {
        r.text
            .lines()
            .find_map(|l| l.find("error: ").map(|p| l[p..].to_string()))
            .unwrap_or_default()
    };
    if a.kind != b.kind {
        rep.findings.push(finding(
            "include-vs-paste",
            &format!("{}/{}", a.kind_name(), b.kind_name()),
            format!(
                "{}: one file gives {:?}, the same text cut into included files gives {:?}",
                case.label,
                a.text.lines().take(2).collect::<Vec<_>>().join(" | "),
                b.text.lines().take(2).collect::<Vec<_>>().join(" | ")
            ),
        ));
    } else if a.kind == OutcomeKind::Ok && a.text != b.text {
        rep.findings.push(finding(
            "include-vs-paste",
            "compile-output",
            format!(
                "{}: what compile() returns differs between one file and the same text cut into included files at {}",
                case.label,
                crate::case::first_difference(&a.text, &b.text)
            ),
        ));
    } else if a.kind == OutcomeKind::Err && message(a) != message(b) {
        rep.findings.push(finding(
            "include-vs-paste",
            "message",
            format!(
                "{}: rejected with {:?} as one file and with {:?} when cut into included files",
                case.label,
                message(a),
                message(b)
            ),
        ));
    }
}
