//! The only source of choices in the simulator: SplitMix64 streams derived from VERIF_SEED.
//!
//! Every knob draws from its own named sub-stream (`Rng::sub`), so adding a knob never shifts the
//! values another knob sees. Nothing in here reads a clock or OS entropy.

#[derive(Clone, Debug)]
pub struct Rng {
    state: u64,
}

pub fn mix64(mut z: u64) -> u64 {
    z = z.wrapping_add(0x9E37_79B9_7F4A_7C15);
    z = (z ^ (z >> 30)).wrapping_mul(0xBF58_476D_1CE4_E5B9);
    z = (z ^ (z >> 27)).wrapping_mul(0x94D0_49BB_1331_11EB);
    z ^ (z >> 31)
}

/// FNV-1a 64 over bytes: used for all digests (event logs, outcomes, scenario identities)
pub fn fnv64(bytes: &[u8]) -> u64 {
    let mut h: u64 = 0xcbf2_9ce4_8422_2325;
    for b in bytes {
        h ^= *b as u64;
        h = h.wrapping_mul(0x0000_0100_0000_01B3);
    }
    h
}

pub fn fnv64_extend(mut h: u64, bytes: &[u8]) -> u64 {
    for b in bytes {
        h ^= *b as u64;
        h = h.wrapping_mul(0x0000_0100_0000_01B3);
    }
    h
}

impl Rng {
    pub fn new(seed: u64) -> Self {
        Rng {
            state: mix64(seed ^ 0x5DEE_CE66_D1CE_4E5B),
        }
    }

    /// Derive an independent stream named by `tag`
    pub fn sub(&self, tag: &str) -> Rng {
        Rng {
            state: mix64(self.state ^ fnv64(tag.as_bytes())),
        }
    }

    /// Derive an independent stream named by `tag` and an index
    pub fn sub_n(&self, tag: &str, n: u64) -> Rng {
        Rng {
            state: mix64(mix64(self.state ^ fnv64(tag.as_bytes())) ^ n.wrapping_mul(0xA24B_AED4_963E_E407)),
        }
    }

    pub fn next_u64(&mut self) -> u64 {
        self.state = self.state.wrapping_add(0x9E37_79B9_7F4A_7C15);
        let mut z = self.state;
        z = (z ^ (z >> 30)).wrapping_mul(0xBF58_476D_1CE4_E5B9);
        z = (z ^ (z >> 27)).wrapping_mul(0x94D0_49BB_1331_11EB);
        z ^ (z >> 31)
    }

    /// Uniform in 0..n (n > 0)
    pub fn below(&mut self, n: u64) -> u64 {
        debug_assert!(n > 0);
        // Multiply-shift; bias is irrelevant at the sizes used here
        ((self.next_u64() as u128 * n as u128) >> 64) as u64
    }

    pub fn range(&mut self, lo: u64, hi_inclusive: u64) -> u64 {
        lo + self.below(hi_inclusive - lo + 1)
    }

    pub fn chance(&mut self, num: u64, den: u64) -> bool {
        self.below(den) < num
    }

    pub fn pick<'a, T>(&mut self, items: &'a [T]) -> &'a T {
        &items[self.below(items.len() as u64) as usize]
    }

    pub fn shuffle<T>(&mut self, items: &mut [T]) {
        for i in (1..items.len()).rev() {
            let j = self.below(i as u64 + 1) as usize;
            items.swap(i, j);
        }
    }
}
