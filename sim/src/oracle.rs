//! Oracles: run a literal case and judge it.

use crate::case::{Case, Finding, Report, first_difference};
use crate::exec::{OutcomeKind, TaskResult, run_exec};
use crate::prng::fnv64;

pub fn run_case(case: &Case) -> Report {
    let mut rep = Report {
        cases: 1,
        ..Default::default()
    };
    match case.kind.as_str() {
        "det" => det(case, &mut rep),
        "total" => total(case, &mut rep),
        "scaling" => scaling(case, &mut rep),
        "refine" | "defplace" | "split" => crate::c12::judge(case, &mut rep),
        k if k.starts_with("diag") => crate::c14::judge(case, &mut rep),
        other => {
            rep.notes.insert(format!("unknown case kind {other}"));
        }
    }
    rep
}

/// Probe bookkeeping for one scenario: per site the set of order signatures seen across the
/// executions of this scenario
fn absorb_probes(
    rep: &mut Report,
    per_site_orders: &mut std::collections::BTreeMap<String, std::collections::BTreeSet<u64>>,
    r: &TaskResult,
) {
    // Key by (site, occurrence index within the task) so the n-th iteration at a site is compared
    // with the n-th iteration of another execution
    let mut occ: std::collections::BTreeMap<&str, u32> = std::collections::BTreeMap::new();
    for (site, len, sig) in &r.probes {
        let e = rep.probes.entry(site.to_string()).or_insert((0, 0, 0));
        e.0 += 1;
        if *len >= 2 {
            e.1 += 1;
        }
        let n = occ.entry(site).or_insert(0);
        *n += 1;
        if *len >= 2 {
            per_site_orders
                .entry(format!("{site}#{n}"))
                .or_default()
                .insert(*sig);
        }
    }
}

/// C07: all subject tasks of all executions must have identical outcomes
fn det(case: &Case, rep: &mut Report) {
    let mut subjects: Vec<(usize, usize, usize, TaskResult)> = Vec::new();
    let mut orders = std::collections::BTreeMap::new();
    let mut scenario = 0u64;
    for (ei, ex) in case.execs.iter().enumerate() {
        let reads_before = crate::clock::TASK_READS.load(std::sync::atomic::Ordering::Relaxed);
        let decoys_before = crate::clock::DECOYS_WRITTEN.load(std::sync::atomic::Ordering::Relaxed);
        let res = run_exec(ex, &case.fss);
        let decoys = crate::clock::DECOYS_WRITTEN.load(std::sync::atomic::Ordering::Relaxed) - decoys_before;
        if decoys > 0 {
            rep.count("executions_with_decoy_files_on_disk", 1);
            rep.count("decoy_files_planted", decoys);
        }
        let reads = crate::clock::TASK_READS.load(std::sync::atomic::Ordering::Relaxed) - reads_before;
        rep.count("executions_under_simulated_clock_and_environment", 1);
        if reads > 0 {
            // (not a violation in itself: only a result that depends on it is)
            rep.count("clock_reads_by_task_threads", reads);
        }
        rep.history_digests.insert(res.history_digest);
        if ex.threads.len() > 1 {
            rep.interleavings.insert(fnv64(format!("{:?}", res.schedule).as_bytes()));
        }
        for (ti, tr) in res.results.into_iter().enumerate() {
            for (k, r) in tr.into_iter().enumerate() {
                rep.absorb_task(&r);
                if r.subject {
                    absorb_probes(rep, &mut orders, &r);
                    if scenario == 0 {
                        scenario = ex.threads[ti].tasks[k].input_digest(&case.fss);
                    }
                    subjects.push((ei, ti, k, r));
                }
            }
        }
    }
    rep.scenario_digests.insert(scenario);
    let mut multi_order_sites = std::collections::BTreeSet::new();
    for (site, sigs) in &orders {
        if sigs.len() >= 2 {
            let s = site.split('#').next().unwrap_or(site).to_string();
            multi_order_sites.insert(s);
        }
    }
    for s in &multi_order_sites {
        rep.probes.entry(s.clone()).or_insert((0, 0, 0)).2 += 1;
    }
    let canaries: std::collections::BTreeSet<&str> =
        subjects.iter().map(|s| s.3.canary.as_str()).collect();
    // Non-trivial: the executions really differed in the hash schedule (or observed >= 2 orders)
    if canaries.len() >= 2 || !multi_order_sites.is_empty() {
        rep.nontrivial.insert(scenario);
    }
    // a subject that compiled twice from one caller-held table reports the comparison itself
    if let Some((e, t, k, r)) = subjects
        .iter()
        .find(|s| s.3.text.contains("=== second compile of the same table: DIFFERENT ==="))
    {
        rep.findings.push(Finding {
            property: "C07".into(),
            class: "repeat-differs".into(),
            fingerprint: "caller-table".into(),
            detail: format!(
                "{}: exec {e} thread {t} task {k}: compiling twice from the same table (rssl's built-in array handler) gives two results: {}",
                case.label,
                r.text.lines().filter(|l| l.starts_with("Err") || l.starts_with("Ok") || l.contains("error")).take(4).collect::<Vec<_>>().join(" | ")
            ),
        });
    }
    if let Some((e0, t0, k0, first)) = subjects.first() {
        for (e, t, k, r) in subjects.iter().skip(1) {
            if r.text != first.text || r.aux != first.aux {
                let mut kinds = [first.kind_name(), r.kind_name()];
                kinds.sort();
                rep.findings.push(Finding {
                    property: "C07".into(),
                    class: "nondeterministic-output".into(),
                    fingerprint: format!("{}/{}", kinds[0], kinds[1]),
                    detail: format!(
                        "{}: exec {e0} thread {t0} task {k0} (hash order {}) and exec {e} thread {t} task {k} (hash order {}) differ at {}",
                        case.label,
                        first.canary,
                        r.canary,
                        if r.text != first.text {
                            first_difference(&first.text, &r.text)
                        } else {
                            format!("token location {}", first_difference(&first.aux, &r.aux))
                        }
                    ),
                });
                break;
            }
        }
    }
}

/// C08: every task ends in Ok or a rendered Err
fn total(case: &Case, rep: &mut Report) {
    for ex in &case.execs {
        let res = run_exec(ex, &case.fss);
        rep.history_digests.insert(res.history_digest);
        for (ti, tr) in res.results.iter().enumerate() {
            for (k, r) in tr.iter().enumerate() {
                rep.absorb_task(r);
                let task = &ex.threads[ti].tasks[k];
                let scenario = task.input_digest(&case.fss);
                rep.scenario_digests.insert(scenario);
                if r.events.iter().any(|e| !e.fired.is_empty()) || case.params.gb("baked_fault") {
                    rep.nontrivial.insert(scenario);
                    if case.params.gb("baked_fault") {
                        *rep.fired.entry("token_lost_duplicated_or_swapped".into()).or_insert(0) += 1;
                    }
                }
                if !r.subject {
                    continue;
                }
                match r.kind {
                    OutcomeKind::Ok => {}
                    OutcomeKind::Err => {
                        // "an error whose message renders": non-empty text after the variant line
                        let body = r.text.split_once('\n').map(|x| x.1).unwrap_or("");
                        if body.trim().is_empty() {
                            rep.findings.push(Finding {
                                property: "C08".into(),
                                class: "empty-diagnostic".into(),
                                fingerprint: r.text.lines().next().unwrap_or("").to_string(),
                                detail: format!("{}: error renders as an empty message", case.label),
                            });
                        }
                        if task.target == crate::exec::Target::MetalBytecode
                            && task.api == crate::exec::Api::Compile
                        {
                            rep.count("metal_bytecode_err", 1);
                        }
                    }
                    OutcomeKind::Panic => {
                        rep.findings.push(Finding {
                            property: "C08".into(),
                            class: "panic".into(),
                            fingerprint: r.panic_site.clone(),
                            detail: format!(
                                "{}: {} (line {})",
                                case.label, r.text, r.panic_line
                            ),
                        });
                    }
                }
            }
        }
    }
}

/// C08, time budget in logical time: the allocation events a compile needs beyond the n = 0
/// member of its family may grow by at most 8x when n doubles (cubic), never exponentially
fn scaling(case: &Case, rep: &mut Report) {
    let ex = &case.execs[0];
    let res = run_exec(ex, &case.fss);
    rep.history_digests.insert(res.history_digest);
    let rs = &res.results[0];
    let mut allocs: Vec<u64> = Vec::new();
    for (k, r) in rs.iter().enumerate() {
        rep.absorb_task(r);
        let scenario = ex.threads[0].tasks[k].input_digest(&case.fss);
        rep.scenario_digests.insert(scenario);
        if k > 0 {
            rep.nontrivial.insert(scenario);
        }
        match r.kind {
            OutcomeKind::Panic => {
                rep.findings.push(Finding {
                    property: "C08".into(),
                    class: "panic".into(),
                    fingerprint: r.panic_site.clone(),
                    detail: format!("{} (task {k}): {}", case.label, r.text),
                });
                return;
            }
            OutcomeKind::Err => {
                rep.count("scaling_not_judged_family_rejected", 1);
                return;
            }
            OutcomeKind::Ok => allocs.push(r.allocs),
        }
    }
    rep.count("scaling_families_judged", 1);
    let d: Vec<u64> = allocs.iter().map(|a| a.saturating_sub(allocs[0])).collect();
    for k in 2..d.len() {
        if d[k] > 8 * d[k - 1] + 64 {
            rep.findings.push(Finding {
                property: "C08".into(),
                class: "super-polynomial-time".into(),
                fingerprint: case.label.split('@').next().unwrap_or("").to_string(),
                detail: format!(
                    "{}: allocation events beyond n=0 are {:?}: doubling n multiplies the work by more than 8",
                    case.label, d
                ),
            });
            return;
        }
    }
}
