//! Workload W1: the repository's own shader sources, read at check time from /repo/tests, and
//! W5: snippets harvested from the repository's own test sources.

use crate::exec::{Target, TaskSpec};
use crate::simfs::{FsSpec, Policy};
use std::collections::BTreeMap;
use std::path::{Path, PathBuf};

pub fn repo_root() -> PathBuf {
    PathBuf::from(std::env::var("RSSL_SIM_REPO").unwrap_or_else(|_| "/repo".to_string()))
}

#[derive(Clone, Debug)]
pub struct CorpusEntry {
    pub label: String,
    /// index into Corpus::trees
    pub tree: usize,
    pub entry: String,
    /// how tests/external.rs compiles it (no-pipeline mode)
    pub external: bool,
    /// with the defines tests/external.rs passes
    pub ffx_defines: bool,
}

pub struct Corpus {
    pub trees: Vec<FsSpec>,
    pub entries: Vec<CorpusEntry>,
    pub notes: Vec<String>,
}

fn walk(dir: &Path, rel: &str, out: &mut BTreeMap<String, String>) {
    let Ok(rd) = std::fs::read_dir(dir) else {
        return;
    };
    let mut names: Vec<_> = rd.filter_map(|e| e.ok()).map(|e| e.file_name()).collect();
    names.sort();
    for name in names {
        let name = name.to_string_lossy().to_string();
        let path = dir.join(&name);
        let r = if rel.is_empty() {
            name.clone()
        } else {
            format!("{rel}/{name}")
        };
        if path.is_dir() {
            walk(&path, &r, out);
        } else if !name.ends_with(".rs")
            && let Ok(s) = std::fs::read_to_string(&path)
        {
            out.insert(r, s);
        }
    }
}

/// Extract the first string literal following each occurrence of `needle` (e.g. `compile_file(`)
fn strings_after(src: &str, needle: &str) -> Vec<String> {
    let mut out = Vec::new();
    let mut rest = src;
    while let Some(i) = rest.find(needle) {
        rest = &rest[i + needle.len()..];
        let t = rest.trim_start();
        if let Some(t) = t.strip_prefix('"')
            && let Some(end) = t.find('"')
        {
            out.push(t[..end].to_string());
        }
    }
    out
}

pub fn load() -> Corpus {
    let root = repo_root().join("tests");
    let mut trees = Vec::new();
    let mut entries = Vec::new();
    let mut notes = Vec::new();

    // tests/basic/*.rssl: single-file programs compiled under the name "test.rssl"
    let basic = root.join("basic");
    let mut names: Vec<String> = std::fs::read_dir(&basic)
        .map(|rd| {
            rd.filter_map(|e| e.ok())
                .map(|e| e.file_name().to_string_lossy().to_string())
                .filter(|n| n.ends_with(".rssl"))
                .collect()
        })
        .unwrap_or_default();
    names.sort();
    if names.is_empty() {
        notes.push("tests/basic/*.rssl not found".to_string());
    }
    for n in names {
        if let Ok(s) = std::fs::read_to_string(basic.join(&n)) {
            let mut fs = FsSpec::new(Policy::Flat);
            fs.files.insert("test.rssl".to_string(), s);
            trees.push(fs);
            entries.push(CorpusEntry {
                label: format!("basic/{n}"),
                tree: trees.len() - 1,
                entry: "test.rssl".to_string(),
                external: false,
                ffx_defines: false,
            });
        }
    }

    // hlsl/tests/*.rssl and msl/tests/*.rssl: larger single-file sources of the exporter tests,
    // compiled without pipelines
    for dir in ["hlsl/tests", "msl/tests"] {
        let d = repo_root().join(dir);
        let mut names: Vec<String> = std::fs::read_dir(&d)
            .map(|rd| {
                rd.filter_map(|e| e.ok())
                    .map(|e| e.file_name().to_string_lossy().to_string())
                    .filter(|n| n.ends_with(".rssl"))
                    .collect()
            })
            .unwrap_or_default();
        names.sort();
        for n in names {
            if let Ok(s) = std::fs::read_to_string(d.join(&n)) {
                let mut fs = FsSpec::new(Policy::Flat);
                fs.files.insert("test.rssl".to_string(), s);
                trees.push(fs);
                entries.push(CorpusEntry {
                    label: format!("{dir}/{n}"),
                    tree: trees.len() - 1,
                    entry: "test.rssl".to_string(),
                    external: true,
                    ffx_defines: false,
                });
            }
        }
    }

    // tests/ffx_fsr2 and tests/capsaicin: directory trees with relative includes
    for dir in ["ffx_fsr2", "capsaicin"] {
        let d = root.join(dir);
        let mut files = BTreeMap::new();
        walk(&d, "", &mut files);
        let modrs = std::fs::read_to_string(d.join("mod.rs")).unwrap_or_default();
        let mut es = strings_after(&modrs, "compile_file(");
        es.retain(|e| files.contains_key(e));
        es.dedup();
        if files.is_empty() || es.is_empty() {
            notes.push(format!("tests/{dir}: no entries found"));
            continue;
        }
        let mut fs = FsSpec::new(Policy::ParentRelative);
        fs.files = files;
        trees.push(fs);
        for e in es {
            entries.push(CorpusEntry {
                label: format!("{dir}/{e}"),
                tree: trees.len() - 1,
                entry: e,
                external: true,
                ffx_defines: true,
            });
        }
    }

    Corpus {
        trees,
        entries,
        notes,
    }
}

pub const EXTERNAL_DEFINES: &[(&str, &str)] = &[
    ("FFX_GPU", "1"),
    ("FFX_HLSL", "1"),
    ("globallycoherent", ""),
];

impl Corpus {
    /// The task the repository's own tests run for this entry, retargeted
    pub fn base_task(&self, e: &CorpusEntry, target: Target, fs_index: usize) -> TaskSpec {
        let mut t = TaskSpec::compile(fs_index, &e.entry, target);
        if e.external {
            if e.ffx_defines {
                t.defines = EXTERNAL_DEFINES
                    .iter()
                    .map(|(a, b)| (a.to_string(), b.to_string()))
                    .collect();
            }
            t.no_pipeline = true;
        } else {
            t.buffer_address = target == Target::Vk;
            t.validate_layout = true;
        }
        t
    }
}

// ---- W5: snippets from the repository's own unit tests ----

/// Read a Rust string literal starting at `src[0] == '"'`; returns (value, bytes consumed)
fn read_rust_string(src: &str) -> Option<(String, usize)> {
    let b = src.as_bytes();
    if b.first() != Some(&b'"') {
        return None;
    }
    let mut out = String::new();
    let mut i = 1;
    while i < b.len() {
        match b[i] {
            b'"' => return Some((out, i + 1)),
            b'\\' => {
                i += 1;
                match *b.get(i)? {
                    b'n' => out.push('\n'),
                    b't' => out.push('\t'),
                    b'r' => out.push('\r'),
                    b'0' => out.push('\0'),
                    b'\\' => out.push('\\'),
                    b'"' => out.push('"'),
                    b'\'' => out.push('\''),
                    b'\n' => {
                        // line continuation: skip leading whitespace of the next line
                        while i + 1 < b.len() && matches!(b[i + 1], b' ' | b'\t' | b'\n' | b'\r') {
                            i += 1;
                        }
                    }
                    _ => return None,
                }
                i += 1;
            }
            _ => {
                let ch = src[i..].chars().next()?;
                out.push(ch);
                i += ch.len_utf8();
            }
        }
    }
    None
}

/// Harvest the first string argument of every `check_*(`-style helper call in the listed files
pub fn harvest_snippets() -> (Vec<String>, Vec<String>) {
    let root = repo_root();
    let files = [
        "hlsl/tests/exporter_tests.rs",
        "msl/tests/msl_export_tests.rs",
        "typer/tests/type_check_tests.rs",
        "typer/tests/evaluator_tests.rs",
    ];
    let helpers = [
        "check_rssl_to_hlsl(",
        "check_rssl_to_hlsl_vk(",
        "check_rssl_to_msl(",
        "check(",
        "check_types(",
        "check_fail(",
        "check_fail_message(",
        "check_pass(",
        "check_for_target(",
        "expect_fail(",
        "expect_pass(",
    ];
    let mut out = std::collections::BTreeSet::new();
    let mut notes = Vec::new();
    for f in files {
        let Ok(src) = std::fs::read_to_string(root.join(f)) else {
            notes.push(format!("{f}: not found"));
            continue;
        };
        let mut n = 0;
        for h in helpers {
            let mut rest = src.as_str();
            while let Some(i) = rest.find(h) {
                // Require a non-identifier character before the helper name
                let before = rest[..i].chars().next_back();
                rest = &rest[i + h.len()..];
                if matches!(before, Some(c) if c.is_alphanumeric() || c == '_') {
                    continue;
                }
                let t = rest.trim_start();
                if let Some((s, _)) = read_rust_string(t)
                    && !s.trim().is_empty()
                    && s.len() < 8192
                {
                    out.insert(s);
                    n += 1;
                }
            }
        }
        if n == 0 {
            notes.push(format!("{f}: no snippets harvested"));
        }
    }
    (out.into_iter().collect(), notes)
}
