//! C14 - diagnostics track source positions across include histories.
//!
//! Every expectation is derived inside `judge` from the literal case: the reference model (for
//! generated graphs) or the fault-free pre-run plus the text of the including file (for the
//! repository's shader trees) say where the planted failure is.

use crate::case::{Case, Finding, Report};
use crate::exec::{Api, ExecSpec, OutcomeKind, Target, TaskResult, run_exec};
use crate::json::Json;
use crate::model::{self, Atom, FailKind, Verdict};
use crate::plan::{Ctx, STACK_MAIN, STACK_SMALL, Tier, key, w1_scenarios};
use crate::prng::{Rng, fnv64};
use crate::simfs::{Fault, FaultKind, Sel};
use crate::w3::{self, Form, Mode};

const BATCH: u64 = 25;
const SHIFTS: [u64; 4] = [1, 2, 7, 50];

pub fn sections(ctx: &Ctx) -> Vec<(&'static str, u64)> {
    let (locs, fail, typ, trivia) = match ctx.tier {
        Tier::Quick => (160, 320, 160, 100),
        Tier::Thorough => (4_000, 8_000, 4_000, 2_000),
    };
    let w1 = w1_scenarios(&ctx.corpus, false).len() as u64;
    vec![
        ("locs", locs * ctx.scale),
        ("fail", fail * ctx.scale),
        ("type", typ * ctx.scale),
        ("corpus-load", w1),
        ("corpus-crlf", w1),
        ("trivia", trivia * ctx.scale),
        ("corpus-trivia", w1),
        ("corpus-type", w1),
        ("stale", trivia * ctx.scale),
        ("w2-trivia", crate::w2::TAILS.len() as u64 * 3 + if ctx.tier == Tier::Quick { 60 } else { 600 }),
        ("separators", (SEPARATOR_SHAPES.len() as u64 + 1) * 3),
    ]
}

fn graph_case(kind: &str, label: String, g: &w3::Graph, faults: Vec<Fault>, api: Api, rng: &mut Rng) -> Case {
    let mut task = match api {
        Api::Preprocess => w3::preprocess_task(g),
        Api::Compile => w3::compile_task(g, &mut rng.sub("target")),
    };
    task.faults = faults;
    let stack = if rng.chance(1, 2) { STACK_SMALL } else { STACK_MAIN };
    Case {
        check: "C14".into(),
        kind: kind.into(),
        label,
        fss: vec![g.fs.clone()],
        execs: vec![ExecSpec::single(key(rng), stack, task)],
        params: Json::obj().with("variant_seed", Json::u(rng.next_u64() >> 12)),
    }
}

pub fn cases(ctx: &Ctx, section: &str, unit: u64) -> Vec<Case> {
    let mut out = Vec::new();
    match section {
        "locs" | "fail" | "type" => {
            for b in 0..BATCH {
                let i = unit * BATCH + b;
                let mut rng = ctx.rng().sub_n(section, i);
                let mode = if rng.chance(1, 3) { Mode::Plain } else { Mode::Hostile };
                match section {
                    "locs" => {
                        let g = w3::generate(&mut rng.sub("graph"), mode, Form::Pre);
                        if rng.chance(1, 10) {
                            // a byte order mark in front of one of the pasted files: whether the
                            // file is rejected (at 1:1) or accepted, positions count from the
                            // bytes the handler returned
                            let base = model::run(&g.fs, &[], &g.entry, &g.defines);
                            if matches!(base.verdict, Verdict::Ok(_)) && !base.pasted.is_empty() {
                                let f = rng.sub("bom").pick(&base.pasted).clone();
                                out.push(graph_case(
                                    "diag-bom",
                                    format!("W3:bom#{i}"),
                                    &g,
                                    vec![Fault::new(FaultKind::Bom, Sel::File(f))],
                                    Api::Preprocess,
                                    &mut rng,
                                ));
                                continue;
                            }
                        }
                        let faults = if rng.chance(1, 4) {
                            vec![Fault::new(FaultKind::Crlf, Sel::All)]
                        } else {
                            vec![]
                        };
                        out.push(graph_case(
                            "diag-locs",
                            format!("W3:locs#{i}"),
                            &g,
                            faults,
                            Api::Preprocess,
                            &mut rng,
                        ));
                    }
                    "fail" => {
                        let form = if rng.chance(1, 3) { Form::Compile } else { Form::Pre };
                        let g = w3::generate(&mut rng.sub("graph"), mode, form);
                        let base = model::run(&g.fs, &[], &g.entry, &g.defines);
                        // one planted failure: unreadable include string / file, or a NUL line
                        let mut fr = rng.sub("fault");
                        let mut faults = Vec::new();
                        let strings: Vec<&str> = base.walk.iter().map(|s| s.string.as_str()).collect();
                        match fr.below(5) {
                            4 if !base.pasted.is_empty() => {
                                // a block comment that never ends: the lexer reports it at the
                                // end-of-file position of that file
                                let f = fr.pick(&base.pasted).clone();
                                let tail = if fr.chance(1, 2) {
                                    "\n/* a comment that never ends"
                                } else {
                                    "\n/* a comment that never ends\n\n"
                                };
                                faults.push(Fault::new(FaultKind::Append, Sel::File(f)).text(tail));
                            }
                            0 | 1 if !strings.is_empty() => {
                                let kind = if fr.chance(1, 2) {
                                    FaultKind::NotFound
                                } else {
                                    FaultKind::NotText
                                };
                                faults.push(Fault::new(
                                    kind,
                                    Sel::IncludeString(fr.pick(&strings).to_string()),
                                ));
                            }
                            2 if base.pasted.len() > 1 => {
                                let f = fr.pick(&base.pasted[1..]).clone();
                                faults.push(Fault::new(FaultKind::NotFound, Sel::File(f)));
                            }
                            _ => {
                                if !base.pasted.is_empty() {
                                    let f = fr.pick(&base.pasted).clone();
                                    let text = &g.fs.files[&f];
                                    let starts: Vec<usize> = std::iter::once(0)
                                        .chain(text.match_indices('\n').map(|(i, _)| i + 1))
                                        .filter(|o| *o < text.len())
                                        .collect();
                                    if !starts.is_empty() {
                                        let o = *fr.pick(&starts);
                                        faults.push(
                                            Fault::new(FaultKind::Nul, Sel::File(f)).ab(o as u64, 0),
                                        );
                                    }
                                }
                            }
                        }
                        let api = if form == Form::Compile { Api::Compile } else { Api::Preprocess };
                        out.push(graph_case(
                            "diag-fail",
                            format!("W3:fail#{i}"),
                            &g,
                            faults,
                            api,
                            &mut rng,
                        ));
                    }
                    _ => {
                        // a type error planted at a marker that the model says is emitted once
                        let mut g = w3::generate(&mut rng.sub("graph"), mode, Form::Compile);
                        let base = model::run(&g.fs, &[], &g.entry, &g.defines);
                        if let Verdict::Ok(toks) = &base.verdict
                            && model::compile_form_verdict(toks) == Some(Ok(()))
                        {
                            let names: Vec<&model::Tok> = toks
                                .iter()
                                .filter(|t| matches!(&t.atom, Atom::Id(n) if n.starts_with("m_")) && t.col > 1)
                                .filter(|t| g.fs.files.contains_key(&t.file))
                                .collect();
                            // only markers written directly on a declaration line (col of the name)
                            let decls: Vec<&&model::Tok> = names
                                .iter()
                                .filter(|t| {
                                    g.fs.files[&t.file]
                                        .lines()
                                        .nth(t.line as usize - 1)
                                        .is_some_and(|l| {
                                            l.trim_start().starts_with("static const int")
                                                && l.contains(&format!(" {} =", atom_name(t)))
                                        })
                                })
                                .collect();
                            if !decls.is_empty() {
                                let mut pr = rng.sub("plant");
                                let t = **pr.pick(&decls);
                                let text = g.fs.files.get_mut(&t.file).unwrap();
                                let mut lines: Vec<String> =
                                    text.split('\n').map(|s| s.to_string()).collect();
                                let li = t.line as usize - 1;
                                let indent: String = lines[li]
                                    .chars()
                                    .take_while(|c| c.is_whitespace())
                                    .collect();
                                // an error gadget right after a declaration that is emitted once:
                                // the diagnostic belongs to the last zz_err_ token of the gadget
                                let gadget: Vec<String> = match pr.below(27) {
                                    // an annotation that is not allowed, on the second
                                    // declarator of a member declaration (round 10)
                                    26 => vec![
                                        "cbuffer zz_CB14 {".into(),
                                        "float zz_first ,".into(),
                                        "// between the declarators".into(),
                                        format!("{indent}zz_err_second : register ( b0 ) ;"),
                                        "}".into(),
                                    ],
                                    12 => vec![
                                        "static const int zz_g12 = zz_NS ::".into(),
                                        format!("{indent}  zz_err_leaf ;"),
                                    ],
                                    13.. => {
                                        let n = pr.below(CALIBRATED.len() as u64) as usize;
                                        let mut v = vec![format!("{indent}static const int zz_cal_{n} = 0 ;")];
                                        v.extend(CALIBRATED[n].split('\n').map(|l| l.to_string()));
                                        v
                                    }
                                    11 => vec![
                                        "int zz_err_ovl ( int zz_x ) { return 0 ; }".into(),
                                        "// between the candidates".into(),
                                        format!("{indent}int zz_err_ovl ( uint zz_y ) {{ return 1 ; }}"),
                                        "static const int zz_g11 =".into(),
                                        format!("{indent}  zz_err_ovl ( true ) ;"),
                                    ],
                                    8 => vec![format!(
                                        "{indent}static const int zz_p1 = 1 zz_err_extra_token ;"
                                    )],
                                    9 => vec![
                                        "static const int zz_p2 =".into(),
                                        format!("{indent}( 1 + 2 zz_err_unclosed ;"),
                                    ],
                                    10 => vec![
                                        "void zz_fn3 ( ) {".into(),
                                        format!("{indent}if ( 1 zz_err_in_condition ) {{ }}"),
                                        "}".into(),
                                    ],
                                    0 => vec![format!(
                                        "{indent}static const int zz_g0 = zz_err_undeclared ;"
                                    )],
                                    1 => vec![
                                        "static const int zz_err_dup = 1 ;".into(),
                                        "".into(),
                                        format!("{indent}static const int zz_err_dup = 2 ;"),
                                    ],
                                    2 => vec![
                                        "void zz_fn ( ) {".into(),
                                        "int zz_err_local = 1 ;".into(),
                                        "// between the two".into(),
                                        format!("{indent}int zz_err_local = 2 ;"),
                                        "}".into(),
                                    ],
                                    3 => vec![
                                        "void zz_fn2 ( ) {".into(),
                                        "int zz_ok = 1 ;".into(),
                                        format!("{indent}zz_ok = zz_err_unknown ;"),
                                        "}".into(),
                                    ],
                                    4 => vec![
                                        "struct zz_S {".into(),
                                        "int zz_err_m ;".into(),
                                        format!("{indent}float zz_err_m ;"),
                                        "} ;".into(),
                                    ],
                                    5 => vec![format!(
                                        "{indent}static const int zz_g6 = zz_err_fn ( 1 ) ;"
                                    )],
                                    6 => vec![
                                        "int zz_callee ( int zz_p ) { return zz_p ; }".into(),
                                        "static const int zz_g7 = zz_callee ( 1 ,".into(),
                                        format!("{indent}zz_err_extra ) ;"),
                                    ],
                                    _ => vec![
                                        "enum zz_E {".into(),
                                        "zz_A ,".into(),
                                        "zz_err_dupval ,".into(),
                                        format!("{indent}zz_err_dupval"),
                                        "} ;".into(),
                                    ],
                                };
                                for (n, gl) in gadget.into_iter().enumerate() {
                                    lines.insert(li + 1 + n, gl);
                                }
                                *text = lines.join("\n");
                            }
                        }
                        out.push(graph_case(
                            "diag-type",
                            format!("W3:type#{i}"),
                            &g,
                            vec![],
                            Api::Compile,
                            &mut rng,
                        ));
                    }
                }
            }
        }
        "corpus-load" => {
            let scs = w1_scenarios(&ctx.corpus, false);
            let sc = &scs[unit as usize];
            let e = &ctx.corpus.entries[sc.entry];
            let fs = ctx.corpus.trees[e.tree].clone();
            let mut rng = ctx.rng().sub_n(section, unit);
            // fault-free pre-run to learn how many requests there are
            let probe = ExecSpec::single((1, 2), STACK_MAIN, sc.task.clone());
            let n = run_exec(&probe, std::slice::from_ref(&fs)).results[0][0].events.len() as u64;
            let ks: Vec<u64> = match ctx.tier {
                Tier::Thorough => (0..n).collect(),
                Tier::Quick => {
                    // the seed picks which requests fail; k = 0 (the entry file) only sometimes
                    let mut v = Vec::new();
                    for _ in 0..2 {
                        if n > 0 {
                            v.push(rng.below(n));
                        }
                    }
                    v.sort();
                    v.dedup();
                    v
                }
            };
            for k in ks {
                let mut r = rng.sub_n("k", k);
                out.push(Case {
                    check: "C14".into(),
                    kind: "diag-corpus-load".into(),
                    label: format!("{}+load#{k}-fails", sc.label),
                    fss: vec![fs.clone()],
                    execs: vec![ExecSpec::single(key(&mut r), STACK_MAIN, sc.task.clone())],
                    params: Json::obj()
                        .with("k", Json::u(k))
                        .with("not_text", Json::Bool(r.chance(1, 2)))
                        .with("variant_seed", Json::u(r.next_u64() >> 12)),
                });
            }
        }
        "trivia" => {
            for b in 0..BATCH {
                let i = unit * BATCH + b;
                let mut rng = ctx.rng().sub_n(section, i);
                let mode = if rng.chance(1, 3) { Mode::Plain } else { Mode::Hostile };
                let form = if rng.chance(1, 3) { Form::Compile } else { Form::Pre };
                let g = w3::generate(&mut rng.sub("graph"), mode, form);
                let api = if form == Form::Compile { Api::Compile } else { Api::Preprocess };
                out.push(graph_case(
                    "diag-trivia",
                    format!("W3:trivia#{i}"),
                    &g,
                    vec![],
                    api,
                    &mut rng,
                ));
            }
        }
        "stale" => {
            for b in 0..BATCH {
                let i = unit * BATCH + b;
                let mut rng = ctx.rng().sub_n(section, i);
                let form = if rng.chance(1, 3) { Form::Compile } else { Form::Pre };
                let g = w3::generate(&mut rng.sub("graph"), Mode::Hostile, form);
                let api = if form == Form::Compile { Api::Compile } else { Api::Preprocess };
                out.push(graph_case(
                    "diag-stale",
                    format!("W3:stale#{i}"),
                    &g,
                    vec![],
                    api,
                    &mut rng,
                ));
            }
        }
        "separators" => {
            let shape_owned = separator_shape((unit / 3) as usize);
            let shape = shape_owned.as_str();
            let target = [crate::exec::Target::Dx, crate::exec::Target::Vk, crate::exec::Target::Msl][(unit % 3) as usize];
            let mut rng = ctx.rng().sub_n(section, unit);
            let mut task = crate::exec::TaskSpec::compile(0, "test.rssl", target);
            task.buffer_address = target == crate::exec::Target::Vk;
            task.no_pipeline = !shape.contains("Pipeline ");
            out.push(Case {
                check: "C14".into(),
                kind: "diag-separators".into(),
                label: format!("separators#{}@{}", unit / 3, target.name()),
                fss: vec![crate::plan::snippet_fs(shape)],
                execs: vec![ExecSpec::single(key(&mut rng), STACK_MAIN, task)],
                params: Json::obj(),
            });
        }
        "w2-trivia" => {
            // whole generated programs, and every program tail alone under every target
            let tails = crate::w2::TAILS.len() as u64 * 3;
            let mut rng = ctx.rng().sub_n(section, unit);
            let (label, fs, task) = if unit < tails {
                crate::w2::tail_scenario((unit / 3) as usize, (unit % 3) as usize)
            } else {
                crate::w2::scenario(&mut rng.sub("w2"), unit - tails)
            };
            let n = match (ctx.tier, unit < tails) {
                (Tier::Quick, true) => 8,
                (Tier::Quick, false) => 2,
                (Tier::Thorough, true) => 24,
                (Tier::Thorough, false) => 4,
            };
            for k in 0..n {
                out.push(Case {
                    check: "C14".into(),
                    kind: "diag-trivia".into(),
                    label: format!("{label}+trivia#{k}"),
                    fss: vec![fs.clone()],
                    execs: vec![ExecSpec::single(key(&mut rng), STACK_MAIN, task.clone())],
                    params: Json::obj().with("variant_seed", Json::u(rng.next_u64() >> 12)),
                });
            }
        }
        "corpus-trivia" => {
            let scs = w1_scenarios(&ctx.corpus, false);
            let sc = &scs[unit as usize];
            let e = &ctx.corpus.entries[sc.entry];
            let mut rng = ctx.rng().sub_n(section, unit);
            let n = if ctx.tier == Tier::Quick { 1 } else { 6 };
            for k in 0..n {
                out.push(Case {
                    check: "C14".into(),
                    kind: "diag-trivia".into(),
                    label: format!("{}+trivia#{k}", sc.label),
                    fss: vec![ctx.corpus.trees[e.tree].clone()],
                    execs: vec![ExecSpec::single(key(&mut rng), STACK_MAIN, sc.task.clone())],
                    params: Json::obj().with("variant_seed", Json::u(rng.next_u64() >> 12)),
                });
            }
        }
        "corpus-type" => {
            let scs = w1_scenarios(&ctx.corpus, false);
            let sc = &scs[unit as usize];
            let e = &ctx.corpus.entries[sc.entry];
            let mut rng = ctx.rng().sub_n(section, unit);
            let n = if ctx.tier == Tier::Quick { 2 } else { 12 };
            for k in 0..n {
                out.push(Case {
                    check: "C14".into(),
                    kind: "diag-corpus-type".into(),
                    label: format!("{}+gadget#{k}", sc.label),
                    fss: vec![ctx.corpus.trees[e.tree].clone()],
                    execs: vec![ExecSpec::single(key(&mut rng), STACK_MAIN, sc.task.clone())],
                    params: Json::obj()
                        .with("file_index", Json::u(rng.below(1000)))
                        .with("gadget", Json::u(rng.below(20)))
                        .with("variant_seed", Json::u(rng.next_u64() >> 12)),
                });
            }
        }
        "corpus-crlf" => {
            let scs = w1_scenarios(&ctx.corpus, false);
            let sc = &scs[unit as usize];
            let e = &ctx.corpus.entries[sc.entry];
            let mut rng = ctx.rng().sub_n(section, unit);
            out.push(Case {
                check: "C14".into(),
                kind: "diag-crlf".into(),
                label: format!("{}+crlf", sc.label),
                fss: vec![ctx.corpus.trees[e.tree].clone()],
                execs: vec![ExecSpec::single(key(&mut rng), STACK_MAIN, sc.task.clone())],
                params: Json::obj(),
            });
        }
        _ => {}
    }
    out
}

/// Error gadgets whose position the oracle does not know by construction: it *calibrates* - the
/// gadget alone, as a one-file program, says on which of its lines and in which column the
/// diagnostic belongs and what the message is; planted in a file of a graph or of a real shader
/// tree the diagnostic must name that file, the corresponding line, the same column and carry the
/// same message (and then move by exactly k lines). One entry per kind of typer error that a few
/// lines can provoke. All names start with zz_.
pub const CALIBRATED: &[&str] = &[
    "struct zz_SA { float3 zz_n ; } ;\nstruct zz_SB { float3 zz_n ; } ;\nfloat3 zz_fn4 ( zz_SA zz_s ) {\n  return zz_s . zz_SB :: zz_n ;\n}",
    "static const int zz_c1 = zz_NS :: zz_x ;",
    "void zz_f ( ) {\n  int zz_a = 1 ;\n  zz_a . zz_m = 2 ;\n}",
    "void zz_f ( ) {\n  float4 zz_v = float4 ( 0 , 0 , 0 , 0 ) ;\n  zz_v . zz_q = 1 ;\n}",
    "void zz_f ( ) {\n  int zz_a = 1 ;\n  zz_a [ 0 ] = 2 ;\n}",
    "void zz_f ( ) {\n  int zz_a = 1 ;\n  zz_a ( 3 ) ;\n}",
    "void zz_f ( ) {\n  float2 zz_v = float2 ( 1 , 2 , 3 ) ;\n}",
    "struct zz_S { int zz_m ; } ;\nvoid zz_f ( ) {\n  zz_S zz_s ;\n  int zz_a = - zz_s ;\n}",
    "struct zz_S { int zz_m ; } ;\nvoid zz_f ( ) {\n  zz_S zz_s ;\n  int zz_a = zz_s + 1 ;\n}",
    "struct zz_S { int zz_m ; } ;\nvoid zz_f ( ) {\n  zz_S zz_s ;\n  int zz_a = zz_s ? 1 : 2 ;\n}",
    "struct zz_S { int zz_m ; } ;\nvoid zz_f ( ) {\n  zz_S zz_s ;\n  int zz_a = true ? zz_s : 1 ;\n}",
    "struct zz_S { int zz_m ; } ;\nvoid zz_f ( ) {\n  zz_S zz_s ;\n  int zz_a = zz_s ;\n}",
    "static const int zz_arr [ 2 ] = { 1 , 2 , 3 } ;",
    "struct zz_S { int zz_m ; } ;\nint zz_f2 ( ) {\n  zz_S zz_s ;\n  return zz_s ;\n}",
    "void zz_f ( ) {\n  const int zz_a = 1 ;\n  zz_a = 2 ;\n}",
    "void zz_f ( ) {\n  1 = 2 ;\n}",
    "void zz_f ( ) {\n  int zz_n = 2 ;\n  int zz_a [ zz_n ] ;\n}",
    "static int zz_a [ 0 ] ;",
    "static int * zz_p ;",
    "void zz_f ( ) {\n  [ zz_unknown_attr ]\n  for ( int zz_i = 0 ; zz_i < 2 ; ++ zz_i ) { }\n}",
    "[ zz_unknown_fattr ]\nvoid zz_f ( ) { }",
    "void zz_f ( ) {\n  float zz_x = 1 ;\n  zz_x = zz_x % true . zz_q ;\n}",
    "struct zz_S { int zz_m ; } ;\nvoid zz_f ( ) {\n  zz_S zz_s ;\n  zz_s . zz_nope = 1 ;\n}",
    "void zz_f ( ) {\n  float zz_x = sizeof ( 1 ) ;\n}",
    "Texture2D zz_t : register ( u0 ) ;",
    "static int zz_r : register ( t0 ) ;",
    "void zz_f ( int zz_p : register ( t0 ) ) { }",
    "struct zz_S ;\nstatic zz_S zz_v ;",
    "void zz_f ( ) {\n  int zz_a = 1 ;\n  int zz_b = zz_a . x . y . zz_w ;\n}",
    "enum zz_E { zz_E0 = 1.5 } ;",
    "void zz_f ( ) {\n  int zz_a = 1 ;\n  zz_a = zz_undefined_fn ( zz_a ) ;\n}",
    "int zz_h ( int zz_a ) { return zz_a ; }\nvoid zz_f ( ) {\n  zz_h ( zz_h ) ;\n}",
    "void zz_f ( ) {\n  float3 zz_v = { 1 , 2 } ;\n}",
    "void zz_f ( ) {\n  int zz_a = 1 ;\n  ! zz_f ;\n}",
    "template < typename zz_T >\nzz_T zz_id ( zz_T zz_x ) { return zz_x ; }\nvoid zz_f ( ) {\n  zz_id < zz_Missing > ( 1 ) ;\n}",
    "void zz_f ( ) {\n  int zz_a = 1 ;\n  switch ( zz_a ) { case zz_a : break ; }\n}",
    "namespace zz_N { int zz_v ( ) { return 1 ; } }\nstatic const int zz_c = zz_N :: zz_missing ( ) ;",
    "cbuffer zz_CB { int zz_m ; }\ncbuffer zz_CB { int zz_m2 ; }",
    "struct zz_S { int zz_m ; } ;\nstruct zz_S { float zz_m ; } ;",
    "typedef int zz_T ;\ntypedef float zz_T ;",
    "void zz_f ( ) {\n  string zz_s ;\n}",
    "void zz_f ( ) {\n  groupshared int zz_g ;\n  return 1 ;\n}",
];

/// What the gadget alone says: (line within the gadget text, column, first line of the message)
fn calibrate(task: &crate::exec::TaskSpec, text: &str, rep: &mut Report) -> Option<(u32, u32, String)> {
    let fs = crate::plan::snippet_fs(text);
    let mut t = task.clone();
    t.fs = 0;
    t.entry = "test.rssl".into();
    t.faults.clear();
    t.defines.clear();
    let ex = ExecSpec::single((11, 13), STACK_MAIN, t);
    let res = crate::exec::run_exec(&ex, std::slice::from_ref(&fs));
    let r = &res.results[0][0];
    rep.absorb_task(r);
    if r.kind != OutcomeKind::Err {
        return None;
    }
    let d = parse_diag(&r.text)?;
    if d.file != "test.rssl" {
        return None;
    }
    Some((d.line, d.col, d.rest.lines().next().unwrap_or("").to_string()))
}

/// Programs with `@@` wherever two tokens meet that are tokens however they are separated; every
/// `@@` of a variant is replaced by the same separator
const SEPARATOR_SHAPES: &[&str] = &[
    "void str_cs() {}\nPipeline StrP { ComputeShader = str_cs; RenderTargetFormat0 = \"R8G8B8A8\"@@\"_UNORM\"; }\n",
    "static const int sep_a =@@1@@+@@2@@;\nstatic const int sep_b = sep_a@@*@@( sep_a@@- 3 )@@;\n",
    "int sep_f(@@int@@x@@,@@int y@@)@@{@@return@@x@@+@@y@@;@@}\nstatic const int sep_c = sep_f@@(@@1@@,@@2@@)@@;\n",
    "struct SepS@@{@@int a@@;@@float2@@b@@;@@}@@;\nstatic SepS sep_s =@@{@@1@@,@@{@@2.0@@,@@3.0@@}@@}@@;\n",
    "enum SepE@@{@@SE_A@@=@@1@@,@@SE_B@@}@@;\nstatic const SepE sep_e = SepE@@::@@SE_B@@;\n",
    // (nothing is varied directly after < or >: the statement's first exception)
    "template@@<typename T@@>\nT sep_id(@@T v@@)@@{ return v; }\nstatic const int sep_t = sep_id@@<int@@>(@@4@@)@@;\n",
];

/// The hand-written shapes, and one long one: a directive-free run of several thousand tokens
/// made of two-line macro invocations, with the mark near its start - whatever is put there
/// moves every later token by a different amount
fn separator_shape(k: usize) -> String {
    if k % (SEPARATOR_SHAPES.len() + 1) < SEPARATOR_SHAPES.len() {
        return SEPARATOR_SHAPES[k % (SEPARATOR_SHAPES.len() + 1)].to_string();
    }
    let mut s = String::from("#define LONG_FIELD(t, n) t n;\nstruct@@LongRun@@{\n");
    for i in 0..900 {
        s.push_str(&format!("  LONG_FIELD(int,\n    lf_{i})\n"));
    }
    s.push_str("};\nstatic LongRun long_run_g;\n");
    s
}

const SEPARATORS: &[&str] = &[" ", "\t", "\n", " /* c */ ", "/**/", "\\\n", "  \n\n  ", " // c\n", "\r\n"];

fn atom_name(t: &model::Tok) -> &str {
    match &t.atom {
        Atom::Id(s) => s,
        _ => "",
    }
}

fn finding(class: &str, fingerprint: &str, detail: String) -> Finding {
    Finding {
        property: "C14".into(),
        class: class.into(),
        fingerprint: fingerprint.into(),
        detail,
    }
}

#[derive(Debug, Clone, PartialEq)]
struct Diag {
    file: String,
    line: u32,
    col: u32,
    /// the first line after "file:line:col" and all following lines (message, source line, caret)
    rest: String,
}

/// Parse the text rssl rendered for an error. None if it carries no position.
fn parse_diag(result_text: &str) -> Option<Diag> {
    let body = result_text.split_once('\n')?.1;
    let first = body.lines().next()?;
    let pos = first.find(": error: ")?;
    let prefix = &first[..pos];
    let mut it = prefix.rsplitn(3, ':');
    let col: u32 = it.next()?.parse().ok()?;
    let line: u32 = it.next()?.parse().ok()?;
    let file = it.next()?.to_string();
    Some(Diag {
        file,
        line,
        col,
        rest: body[pos..].to_string(),
    })
}

fn run_single(case: &Case, ex: &ExecSpec, rep: &mut Report) -> TaskResult {
    let res = run_exec(ex, &case.fss);
    rep.history_digests.insert(res.history_digest);
    let r = res.results.into_iter().next().unwrap().into_iter().next().unwrap();
    rep.absorb_task(&r);
    r
}

fn trivia_lines(rng: &mut Rng, newlines: u64) -> String {
    // whole lines of trivia containing exactly `newlines` line feeds
    let mut out = String::new();
    let mut left = newlines;
    while left > 0 {
        let choice = rng.below(7);
        if choice == 5 && left >= 2 {
            out.push_str("/* a comment that\n   spans two lines */\n");
            left -= 2;
        } else if choice == 6 {
            out.push_str(&format!("// {}\n", w3::multibyte_text(rng)));
            left -= 1;
        } else {
            out.push_str(
                ["\n", "// inserted by the simulator\n", "/* inserted */\n", "   \t\n", "\\\n"]
                    [(choice % 5) as usize],
            );
            left -= 1;
        }
    }
    out
}

/// The k-line shift and bystander-growth variants of a scenario whose diagnostic is `base`
/// in file `file` at line `line`. `earlier` = real names of files loaded before the failure.
#[allow(clippy::too_many_arguments)]
fn metamorphic(
    case: &Case,
    base_exec: &ExecSpec,
    base: &Diag,
    base_text: &str,
    file_canonical: &str,
    insert_at_most: u32,
    earlier: &[String],
    rep: &mut Report,
) {
    let seed = case.params.gu("variant_seed");
    let mut rng = Rng::new(seed).sub("variants");
    for k in SHIFTS {
        let mut ex = base_exec.clone();
        let at = rng.below(insert_at_most as u64 + 1);
        let text = trivia_lines(&mut rng, k);
        ex.threads[0].tasks[0].faults.push(
            Fault::new(FaultKind::InsertLines, Sel::File(file_canonical.to_string()))
                .ab(at, 0)
                .text(&text),
        );
        ex.threads[0].key = (rng.next_u64(), rng.next_u64());
        let r = run_single(case, &ex, rep);
        rep.count("shift_variants", 1);
        // notes below the insertion point move by k as well
        let unshift_notes = |rest: &str| -> String {
            rest.lines()
                .map(|l| {
                    if let Some(pos) = l.find(": note: ") {
                        let mut it = l[..pos].rsplitn(3, ':');
                        if let (Some(c), Some(ln), Some(f)) = (it.next(), it.next(), it.next())
                            && f == base.file
                            && let Ok(n) = ln.parse::<u32>()
                            && n > k as u32
                        {
                            return format!("{f}:{}:{c}{}", n - k as u32, &l[pos..]);
                        }
                    }
                    l.to_string()
                })
                .collect::<Vec<_>>()
                .join("\n")
        };
        match parse_diag(&r.text) {
            Some(d)
                if d.file == base.file
                    && d.col == base.col
                    && (d.rest == base.rest
                        || unshift_notes(&d.rest) == base.rest.lines().collect::<Vec<_>>().join("\n"))
                    && d.line == base.line + k as u32 => {}
            other => {
                rep.findings.push(finding(
                    "line-shift",
                    &format!("k={k}"),
                    format!(
                        "{}: {k} trivia lines inserted before line {} of {file_canonical} (at line index {at}): expected {}:{}:{} with the same message, got {:?} (base {:?})",
                        case.label,
                        base.line,
                        base.file,
                        base.line + k as u32,
                        base.col,
                        other.map(|d| format!("{}:{}:{} {}", d.file, d.line, d.col, d.rest.lines().next().unwrap_or("").to_string()))
                            .unwrap_or_else(|| r.text.lines().take(2).collect::<Vec<_>>().join(" | ")),
                        base_text.lines().nth(1).unwrap_or("")
                    ),
                ));
                return;
            }
        }
    }
    // bystander growth: files loaded earlier get longer; the diagnostic must not move
    let others: Vec<&String> = earlier.iter().filter(|f| f.as_str() != file_canonical).collect();
    if !others.is_empty() {
        let mut ex = base_exec.clone();
        for f in &others {
            let grow = format!(
                "\n// grown by the simulator {}\n/* more */\n",
                "x".repeat(rng.range(0, 40) as usize)
            );
            ex.threads[0].tasks[0]
                .faults
                .push(Fault::new(FaultKind::Append, Sel::File((*f).clone())).text(&grow));
        }
        let r = run_single(case, &ex, rep);
        rep.count("bystander_variants", 1);
        if r.text != base_text {
            rep.findings.push(finding(
                "bystander-growth",
                "diagnostic-moved",
                format!(
                    "{}: growing {} file(s) loaded before the failure changed the diagnostic: {:?} vs {:?}",
                    case.label,
                    others.len(),
                    base_text.lines().nth(1).unwrap_or(""),
                    r.text.lines().nth(1).unwrap_or("")
                ),
            ));
        }
    }
}

pub fn judge(case: &Case, rep: &mut Report) {
    let ex = &case.execs[0];
    let task = &ex.threads[0].tasks[0];
    let digest = fnv64(
        Json::Arr(vec![
            case.fss[task.fs].to_json(),
            task.to_json(),
            case.params.clone(),
        ])
        .dump()
        .as_bytes(),
    );
    rep.scenario_digests.insert(digest);
    match case.kind.as_str() {
        "diag-locs" => {
            // History: a third of the cases run the subject right after a compile, on the same
            // thread, of the same tree with the same API-level defines but an entry file that is
            // one comment line longer - every position of that run is wrong for this one
            let with_history = case.params.gu("variant_seed") % 3 == 0;
            let r = if with_history {
                let mut hx = ex.clone();
                let mut pred = task.clone();
                pred.subject = false;
                if let Some(entry) = case.fss[task.fs].resolve(&task.entry, "") {
                    pred.faults.push(
                        Fault::new(FaultKind::InsertLines, Sel::File(entry))
                            .ab(0, 0)
                            .text("// the compile before this one saw this line\n"),
                    );
                }
                hx.threads[0].tasks.insert(0, pred);
                let res = run_exec(&hx, &case.fss);
                rep.history_digests.insert(res.history_digest);
                rep.count("locs_subjects_run_after_a_compile_of_a_longer_entry_file", 1);
                let mut it = res.results.into_iter().next().unwrap().into_iter();
                let p = it.next().unwrap();
                rep.absorb_task(&p);
                let r = it.next().unwrap();
                rep.absorb_task(&r);
                r
            } else {
                run_single(case, ex, rep)
            };
            if r.kind == OutcomeKind::Panic {
                rep.findings.push(finding("panic", &r.panic_site, format!("{}: {}", case.label, r.text)));
                return;
            }
            let m = model::run(&case.fss[task.fs], &task.faults, &task.entry, &task.defines);
            let Verdict::Ok(toks) = &m.verdict else {
                rep.count("locs_not_judged_model_not_ok", 1);
                return;
            };
            if r.kind != OutcomeKind::Ok {
                rep.count("locs_not_judged_impl_err", 1);
                return;
            }
            let mut expect = String::new();
            for t in toks {
                expect.push_str(&t.loc());
                expect.push('\n');
            }
            rep.count("token_locations_compared", toks.len() as u64);
            if m.pasted.len() >= 2 {
                rep.nontrivial.insert(digest);
            }
            if expect != r.aux {
                // attribute: show the first differing token
                let mut detail = String::new();
                for (i, (a, b)) in expect.lines().zip(r.aux.lines()).enumerate() {
                    if a != b {
                        detail = format!(
                            "token #{i} {}: written at {a}, rssl says {b}",
                            toks.get(i).map(|t| t.render()).unwrap_or_default()
                        );
                        break;
                    }
                }
                if detail.is_empty() {
                    detail = format!(
                        "different number of tokens ({} vs {})",
                        expect.lines().count(),
                        r.aux.lines().count()
                    );
                }
                rep.findings.push(finding(
                    "token-location",
                    "location-differs",
                    format!("{}: {detail}", case.label),
                ));
            }
        }
        "diag-bom" => {
            let r = run_single(case, ex, rep);
            if r.kind == OutcomeKind::Panic {
                rep.findings.push(finding("panic", &r.panic_site, format!("{}: {}", case.label, r.text)));
                return;
            }
            let Some(f) = task.faults.iter().find_map(|x| match &x.sel {
                Sel::File(f) if x.kind == FaultKind::Bom => Some(f.clone()),
                _ => None,
            }) else {
                return;
            };
            let m = model::run(&case.fss[task.fs], &[], &task.entry, &task.defines);
            let Verdict::Ok(toks) = &m.verdict else {
                return;
            };
            rep.count("byte_order_marks_planted", 1);
            rep.nontrivial.insert(digest);
            if r.kind == OutcomeKind::Err {
                match parse_diag(&r.text) {
                    Some(d) if d.file == f && d.line == 1 && d.col == 1 => {}
                    other => rep.findings.push(finding(
                        "diagnostic-position",
                        "byte-order-mark",
                        format!(
                            "{}: {f} starts with a byte order mark; the rejection should name {f}:1:1, got {:?}",
                            case.label,
                            other
                                .map(|d| format!("{}:{}:{}", d.file, d.line, d.col))
                                .unwrap_or_else(|| r.text.lines().take(2).collect::<Vec<_>>().join(" | "))
                        ),
                    )),
                }
                return;
            }
            // accepted: every token outside the first line of that file is where it was written
            let got: Vec<&str> = r.aux.lines().collect();
            if got.len() != toks.len() {
                rep.count("bom_accepted_token_count_differs_not_judged", 1);
                return;
            }
            for (t, g) in toks.iter().zip(got) {
                if t.file == f && t.line == 1 {
                    continue;
                }
                if t.loc() != g {
                    rep.findings.push(finding(
                        "token-location",
                        "location-differs",
                        format!(
                            "{}: {f} starts with a byte order mark and is accepted; token {} written at {} is located at {g}",
                            case.label,
                            t.render(),
                            t.loc()
                        ),
                    ));
                    return;
                }
            }
        }
        "diag-fail" | "diag-type" => {
            let r = run_single(case, ex, rep);
            if r.kind == OutcomeKind::Panic {
                rep.findings.push(finding("panic", &r.panic_site, format!("{}: {}", case.label, r.text)));
                return;
            }
            let m = model::run(&case.fss[task.fs], &task.faults, &task.entry, &task.defines);
            // Where does the model say the first failure is?
            let mut construct_line: Option<u32> = None;
            let mut expected_col: Option<u32> = None;
            let mut expected_notes: Option<Vec<(String, u32, u32)>> = None;
            let mut expected_msg: Option<String> = None;
            let (file, line, what): (String, u32, String) = 'position: { match &m.verdict {
                Verdict::Fail(f) => match (&f.kind, &f.at) {
                    // (a failing #if condition is reported where its first token was written, which may
                    // be a macro body in another file: not a position the simulator planted)
                    (FailKind::Load(_) | FailKind::Lex, Some((file, line))) => {
                        construct_line = f.starts_at;
                        (file.clone(), *line, format!("{:?}", f.kind))
                    }
                    _ => {
                        rep.count("fail_not_judged_no_position", 1);
                        return;
                    }
                },
                Verdict::Ok(toks) if case.kind == "diag-type" => {
                    // the first gadget instance in the stream: from the start of the line of the
                    // first zz_ token to the last zz_err_ token on the following lines of that file
                    let is_zz = |t: &model::Tok| atom_name(t).starts_with("zz_");
                    let Some(first) = toks.iter().position(is_zz) else {
                        rep.count("type_not_judged_gadget_not_emitted", 1);
                        return;
                    };
                    let (gf, gl) = (toks[first].file.clone(), toks[first].line);
                    let mut start = first;
                    while start > 0 && toks[start - 1].file == gf && toks[start - 1].line == gl {
                        start -= 1;
                    }
                    if model::compile_form_verdict(&toks[..start]) != Some(Ok(())) {
                        rep.count("type_not_judged_other_error_first", 1);
                        return;
                    }
                    let mut end = start;
                    while end < toks.len()
                        && toks[end].file == gf
                        && toks[end].line >= gl
                        && toks[end].line <= gl + 6
                    {
                        end += 1;
                    }
                    if let Some(n) = atom_name(&toks[first])
                        .strip_prefix("zz_cal_")
                        .and_then(|n| n.parse::<usize>().ok())
                        .filter(|n| *n < CALIBRATED.len())
                    {
                        let lines = 1 + CALIBRATED[n].split('\n').count();
                        let text: String = case.fss[task.fs].files.get(&gf).map(|c| {
                            c.split('\n')
                                .skip(gl as usize - 1)
                                .take(lines)
                                .collect::<Vec<_>>()
                                .join("\n")
                        }).unwrap_or_default();
                        let Some((l0, c0, msg0)) = calibrate(task, &format!("{text}\n"), rep) else {
                            rep.count("calibrated_gadget_not_judged_no_located_error_alone", 1);
                            return;
                        };
                        rep.count("calibrated_gadgets_planted", 1);
                        construct_line = Some(gl);
                        expected_col = Some(c0);
                        expected_msg = Some(msg0);
                        break 'position (gf, gl + l0 - 1, format!("calibrated gadget {n}"));
                    }
                    let Some(t) = toks[start..end]
                        .iter()
                        .rev()
                        .find(|t| atom_name(t).starts_with("zz_err_"))
                    else {
                        rep.count("type_not_judged_gadget_not_emitted", 1);
                        return;
                    };
                    construct_line = Some(gl);
                    expected_col = Some(t.col);
                    if atom_name(t) == "zz_err_ovl" {
                        // the notes of an ambiguous call name the candidates: the earlier
                        // zz_err_ovl tokens of the gadget
                        expected_notes = Some(
                            toks[start..end]
                                .iter()
                                .filter(|x| atom_name(x) == "zz_err_ovl")
                                .map(|x| (x.file.clone(), x.line, x.col))
                                .take(2)
                                .collect(),
                        );
                    }
                    (t.file.clone(), t.line, format!("gadget {}", atom_name(t)))
                }
                Verdict::Ok(toks) if task.api == Api::Compile => {
                    match model::compile_form_verdict(toks) {
                        Some(Err(i)) => {
                            let t = &toks[i];
                            // only failures whose offending token was written on a line of a file
                            // (not inside a macro body or on the command line) have a position
                            // the statement speaks about unambiguously
                            let direct = case.fss[task.fs].files.get(&t.file).is_some_and(|text| {
                                text.lines().nth(t.line as usize - 1).is_some_and(|l| {
                                    !l.trim_start().starts_with('#')
                                })
                            });
                            if !direct {
                                rep.count("type_not_judged_token_from_macro", 1);
                                return;
                            }
                            (t.file.clone(), t.line, format!("{:?}", t.atom))
                        }
                        _ => {
                            rep.count("fail_not_judged_model_ok", 1);
                            return;
                        }
                    }
                }
                _ => {
                    rep.count("fail_not_judged_model_ok_or_unmodelled", 1);
                    return;
                }
            } };
            if r.kind != OutcomeKind::Err {
                // C12's business; here there is no diagnostic to judge
                rep.count("fail_not_judged_impl_ok", 1);
                return;
            }
            rep.count(
                &format!(
                    "planted_{}",
                    what.split(['(', '"']).next().unwrap_or("").trim().to_lowercase().replace(' ', "_")
                ),
                1,
            );
            let Some(d) = parse_diag(&r.text) else {
                rep.findings.push(finding(
                    "diagnostic-position",
                    "no-position",
                    format!(
                        "{}: failure at {file}:{line} ({what}) is reported without a position: {:?}",
                        case.label,
                        r.text.lines().nth(1).unwrap_or("")
                    ),
                ));
                return;
            };
            if d.file != file
                || d.line != line
                || expected_col.is_some_and(|c| c != d.col)
                || expected_msg.as_deref().is_some_and(|m| Some(m) != d.rest.lines().next())
            {
                rep.findings.push(finding(
                    "diagnostic-position",
                    "wrong-file-or-line",
                    format!(
                        "{}: failure planted at {file}:{line} ({what}) is reported at {}:{}:{} {:?}",
                        case.label,
                        d.file,
                        d.line,
                        d.col,
                        d.rest.lines().next().unwrap_or("")
                    ),
                ));
                return;
            }
            if let Some(want) = &expected_notes {
                let got: Vec<(String, u32, u32)> = r
                    .text
                    .lines()
                    .filter_map(|l| {
                        let pos = l.find(": note: ")?;
                        let mut it = l[..pos].rsplitn(3, ':');
                        let col: u32 = it.next()?.parse().ok()?;
                        let line: u32 = it.next()?.parse().ok()?;
                        Some((it.next()?.to_string(), line, col))
                    })
                    .collect();
                rep.count("diagnostics_with_notes_checked", 1);
                if &got != want {
                    rep.findings.push(finding(
                        "diagnostic-position",
                        "note-position",
                        format!(
                            "{}: the notes of the ambiguous call should name the candidates at {want:?}, got {got:?}",
                            case.label
                        ),
                    ));
                    return;
                }
            }
            let entry_canonical = case.fss[task.fs].resolve(&task.entry, "").unwrap_or_default();
            if file != entry_canonical || m.pasted.len() >= 2 {
                rep.nontrivial.insert(digest);
            }
            let earlier: Vec<String> = m.pasted.clone();
            // trivia is inserted above the line on which the offending construct starts
            let above = construct_line.unwrap_or(line) - 1;
            metamorphic(case, ex, &d, &r.text, &file, above, &earlier, rep);
        }
        "diag-corpus-load" => {
            let k = case.params.gu("k");
            let base = run_single(case, ex, rep);
            if base.kind == OutcomeKind::Panic || (k as usize) >= base.events.len() {
                rep.count("corpus_load_not_judged", 1);
                return;
            }
            let ev = base.events[k as usize].clone();
            let mut fex = ex.clone();
            let kind = if case.params.gb("not_text") {
                FaultKind::NotText
            } else {
                FaultKind::NotFound
            };
            fex.threads[0].tasks[0]
                .faults
                .push(Fault::new(kind, Sel::LoadIndex(k)));
            let r = run_single(case, &fex, rep);
            if r.kind == OutcomeKind::Panic {
                rep.findings.push(finding("panic", &r.panic_site, format!("{}: {}", case.label, r.text)));
                return;
            }
            if r.kind != OutcomeKind::Err || !r.text.contains(&ev.file_name) {
                rep.findings.push(finding(
                    "diagnostic-position",
                    "load-failure-not-reported",
                    format!(
                        "{}: request #{k} for {:?} failed but the result is {:?}",
                        case.label,
                        ev.file_name,
                        r.text.lines().take(2).collect::<Vec<_>>().join(" | ")
                    ),
                ));
                return;
            }
            if k == 0 {
                rep.count("entry_file_failures", 1);
                return;
            }
            let parent = ev.parent_name.clone();
            let Some(ptext) = case.fss[task.fs].files.get(&parent) else {
                rep.count("corpus_load_not_judged", 1);
                return;
            };
            let candidates: Vec<u32> = ptext
                .lines()
                .enumerate()
                .filter(|(_, l)| l.contains("include") && l.contains(&ev.file_name))
                .map(|(i, _)| i as u32 + 1)
                .collect();
            let Some(d) = parse_diag(&r.text) else {
                rep.findings.push(finding(
                    "diagnostic-position",
                    "no-position",
                    format!("{}: failed include of {:?} in {parent} reported without position", case.label, ev.file_name),
                ));
                return;
            };
            if d.file != parent || !candidates.contains(&d.line) {
                rep.findings.push(finding(
                    "diagnostic-position",
                    "wrong-file-or-line",
                    format!(
                        "{}: failed include of {:?} written in {parent} at line(s) {candidates:?} is reported at {}:{}:{}",
                        case.label, ev.file_name, d.file, d.line, d.col
                    ),
                ));
                return;
            }
            rep.nontrivial.insert(digest);
            let earlier: Vec<String> = base.events[..k as usize]
                .iter()
                .map(|e| e.real_name.clone())
                .collect();
            // insert at the very top of the including file: above every directive of it
            metamorphic(case, &fex, &d, &r.text, &parent, 0, &earlier, rep);
        }
        "diag-corpus-type" => {
            // a type error appended to one of the files a real shader tree loads: the diagnostic
            // must name that file and the line the simulator wrote it on
            let base = run_single(case, ex, rep);
            if base.kind != OutcomeKind::Ok {
                rep.count("corpus_type_not_judged_base_not_ok", 1);
                return;
            }
            let mut files: Vec<String> = Vec::new();
            for e in &base.events {
                if let Some(c) = &e.resolved
                    && !files.contains(c)
                {
                    files.push(c.clone());
                }
            }
            if files.is_empty() {
                return;
            }
            let fi = case.params.gu("file_index") as usize % files.len();
            let f = files[fi].clone();
            let Some(content) = case.fss[task.fs].files.get(&f) else {
                return;
            };
            if case.params.gu("gadget") == 9 {
                // declarations in one file, the ambiguous call at the end of the entry file: the
                // error names the call, the notes name the candidates in the other file
                let entry = files[0].clone();
                let decls = "int zz_err_ovl ( int zz_x ) { return 0 ; }\n// between\n  int zz_err_ovl ( uint zz_y ) { return 1 ; }";
                let call = "static const int zz_g11 =\n   zz_err_ovl ( true ) ;";
                let lines_of = |name: &str| case.fss[task.fs].files.get(name).map(|c| c.matches('\n').count() as u32 + 2);
                let (Some(f_first), Some(e_first)) = (lines_of(&f), lines_of(&entry)) else {
                    return;
                };
                let mut gx = ex.clone();
                let (want_err, want_notes) = if f == entry {
                    gx.threads[0].tasks[0].faults.push(
                        Fault::new(FaultKind::Append, Sel::File(f.clone())).text(&format!("\n{decls}\n{call}\n")),
                    );
                    ((entry.clone(), e_first + 4, 4u32), vec![(f.clone(), f_first, 5u32), (f.clone(), f_first + 2, 7u32)])
                } else {
                    gx.threads[0].tasks[0]
                        .faults
                        .push(Fault::new(FaultKind::Append, Sel::File(f.clone())).text(&format!("\n{decls}\n")));
                    gx.threads[0].tasks[0]
                        .faults
                        .push(Fault::new(FaultKind::Append, Sel::File(entry.clone())).text(&format!("\n{call}\n")));
                    ((entry.clone(), e_first + 1, 4u32), vec![(f.clone(), f_first, 5u32), (f.clone(), f_first + 2, 7u32)])
                };
                let r = run_single(case, &gx, rep);
                if r.kind == OutcomeKind::Panic {
                    rep.findings.push(finding("panic", &r.panic_site, format!("{}: {}", case.label, r.text)));
                    return;
                }
                if !r.text.contains("error: ambiguous call to zz_err_ovl") {
                    // the file is pasted twice (redefinition), or never reaches the typer
                    rep.count("corpus_notes_not_judged_other_error", 1);
                    return;
                }
                rep.count("corpus_notes_gadgets_planted", 1);
                let got_err = parse_diag(&r.text).map(|d| (d.file, d.line, d.col));
                let got_notes: Vec<(String, u32, u32)> = r
                    .text
                    .lines()
                    .filter_map(|l| {
                        let pos = l.find(": note: ")?;
                        let mut it = l[..pos].rsplitn(3, ':');
                        let col: u32 = it.next()?.parse().ok()?;
                        let line: u32 = it.next()?.parse().ok()?;
                        Some((it.next()?.to_string(), line, col))
                    })
                    .collect();
                if got_err.as_ref() != Some(&want_err) || got_notes != want_notes {
                    rep.findings.push(finding(
                        "diagnostic-position",
                        "note-position",
                        format!(
                            "{}: ambiguous call planted at {want_err:?} with candidates at {want_notes:?} is reported at {got_err:?} with notes {got_notes:?}",
                            case.label
                        ),
                    ));
                } else if f != entry {
                    rep.nontrivial.insert(digest);
                }
                return;
            }
            let mut want_msg: Option<String> = None;
            let cal_text;
            let (gadget, err_line, err_col): (&str, u32, u32) = match case.params.gu("gadget") {
                10.. => {
                    let n = (case.params.gu("variant_seed") % CALIBRATED.len() as u64) as usize;
                    cal_text = format!("static const int zz_cal_{n} = 0 ;\n{}", CALIBRATED[n]);
                    let Some((l0, c0, msg0)) = calibrate(task, &format!("{cal_text}\n"), rep) else {
                        rep.count("calibrated_gadget_not_judged_no_located_error_alone", 1);
                        return;
                    };
                    rep.count("corpus_calibrated_gadgets_planted", 1);
                    want_msg = Some(msg0);
                    (cal_text.as_str(), l0 - 1, c0)
                }
                6 => ("static const int zz_p1 = 1 zz_err_extra_token ;", 0, 28),
                7 => ("static const int zz_p2 =\n  ( 1 + 2 zz_err_unclosed ;", 1, 11),
                8 => ("void zz_fn3 ( ) {\n if ( 1 zz_err_in_condition ) { }\n}", 1, 9),
                0 => ("static const int zz_g0 = zz_err_undeclared ;", 0, 26),
                1 => ("static const int zz_err_dup = 1 ;\n\nstatic const int zz_err_dup = 2 ;", 2, 18),
                2 => ("void zz_fn ( ) {\nint zz_err_local = 1 ;\n  int zz_err_local = 2 ;\n}", 2, 7),
                3 => ("void zz_fn2 ( ) {\nint zz_ok = 1 ;\nzz_ok = zz_err_unknown ;\n}", 2, 9),
                4 => ("struct zz_S {\nint zz_err_m ;\nfloat zz_err_m ;\n} ;", 2, 7),
                _ => ("int zz_callee ( int zz_p ) { return zz_p ; }\nstatic const int zz_g7 = zz_callee ( 1 ,\n    zz_err_extra ) ;", 2, 5),
            };
            let first_line = content.matches('\n').count() as u32 + 2;
            let mut gx = ex.clone();
            gx.threads[0].tasks[0].faults.push(
                Fault::new(FaultKind::Append, Sel::File(f.clone())).text(&format!("\n{gadget}\n")),
            );
            let r = run_single(case, &gx, rep);
            if r.kind == OutcomeKind::Panic {
                rep.findings.push(finding("panic", &r.panic_site, format!("{}: {}", case.label, r.text)));
                return;
            }
            rep.count("corpus_gadgets_planted", 1);
            let want_line = first_line + err_line;
            match parse_diag(&r.text) {
                Some(d)
                    if d.file == f
                        && d.line == want_line
                        && d.col == err_col
                        && want_msg.as_deref().is_none_or(|m| Some(m) == d.rest.lines().next()) =>
                {
                    if fi > 0 {
                        rep.nontrivial.insert(digest);
                    }
                    let pos = base.events.iter().position(|e| e.resolved.as_deref() == Some(f.as_str())).unwrap_or(0);
                    let earlier: Vec<String> = base.events[..pos]
                        .iter()
                        .filter_map(|e| e.resolved.clone())
                        .collect();
                    metamorphic(case, &gx, &d, &r.text, &f, 0, &earlier, rep);
                }
                other => {
                    rep.findings.push(finding(
                        "diagnostic-position",
                        "wrong-file-or-line",
                        format!(
                            "{}: type error appended to {f} at line {want_line} column {err_col} is reported as {:?}",
                            case.label,
                            other
                                .map(|d| format!("{}:{}:{} {}", d.file, d.line, d.col, d.rest.lines().next().unwrap_or("").to_string()))
                                .unwrap_or_else(|| r.text.lines().take(2).collect::<Vec<_>>().join(" | "))
                        ),
                    ));
                }
            }
        }
        "diag-stale" => {
            // A file that is physically read more than once (two spellings, two includers) and
            // whose second read returns another version. Whatever the loader's policy, the result
            // must be the one of a consistent world: every read sees version 1, or every read
            // sees version 2 - never tokens of one version located in the other.
            let a = run_single(case, ex, rep);
            if a.kind == OutcomeKind::Panic {
                rep.count("stale_not_judged_base_panics", 1);
                return;
            }
            let mut reads: std::collections::BTreeMap<String, u32> = Default::default();
            for e in &a.events {
                if let Some(c) = &e.resolved {
                    *reads.entry(c.clone()).or_insert(0) += 1;
                }
            }
            let multi: Vec<&String> = reads.iter().filter(|(_, n)| **n >= 2).map(|(f, _)| f).collect();
            if multi.is_empty() {
                rep.count("stale_not_judged_no_file_read_twice", 1);
                return;
            }
            let mut vr = Rng::new(case.params.gu("variant_seed")).sub("stale");
            let f = (*vr.pick(&multi)).clone();
            let v1 = case.fss[task.fs].files[&f].clone();
            let k = [1u64, 2, 7][vr.below(3) as usize];
            let v2 = format!(
                "{}{v1}\n#define STALE_CAT(a,b) a##b\n{}",
                trivia_lines(&mut vr, k).replace("\\\n", "\n"),
                if task.api == Api::Preprocess {
                    "stale_marker STALE_CAT(stale_,tail) ;\n"
                } else {
                    "static const int STALE_CAT(stale_,tail) = 1 ;\n"
                }
            );
            // world B: the tree with version 2 in place
            let mut case_b = case.clone();
            case_b.fss[task.fs].files.insert(f.clone(), v2.clone());
            let b = run_single(&case_b, ex, rep);
            // world C: first read version 1, later reads version 2
            let mut cx = ex.clone();
            cx.threads[0].tasks[0]
                .faults
                .push(Fault::new(FaultKind::Stale, Sel::File(f.clone())).text(&v2));
            let c = run_single(case, &cx, rep);
            rep.count("stale_worlds_compared", 1);
            rep.nontrivial.insert(digest);
            if c.kind == OutcomeKind::Panic {
                rep.findings.push(finding("panic", &c.panic_site, format!("{}: {}", case.label, c.text)));
                return;
            }
            let same = |x: &TaskResult, y: &TaskResult| x.text == y.text && x.aux == y.aux;
            if !same(&c, &a) && !same(&c, &b) {
                rep.findings.push(finding(
                    "stale-read",
                    "mixed-versions",
                    format!(
                        "{}: {f} is read twice and the second read returns another version; the result is neither the one of version 1 everywhere nor of version 2 everywhere: differs from v1 at {} / {}",
                        case.label,
                        crate::case::first_difference(&a.text, &c.text),
                        crate::case::first_difference(&a.aux, &c.aux)
                    ),
                ));
            }
        }
        "diag-trivia" => {
            // whitespace, comments and splices inserted at token boundaries of every file must
            // not change the result
            let a = run_single(case, ex, rep);
            let mut tx = ex.clone();
            tx.threads[0].tasks[0].faults.push(
                Fault::new(FaultKind::Trivia, Sel::All).ab(case.params.gu("variant_seed") | 1, 0),
            );
            let b = run_single(case, &tx, rep);
            rep.count("trivia_variants", 1);
            if b.events.iter().any(|e| e.fired.contains(&"trivia")) {
                rep.nontrivial.insert(digest);
            }
            if a.kind == OutcomeKind::Panic {
                // totality is C08's subject; nothing to compare here
                rep.count("trivia_not_judged_base_panics", 1);
                return;
            }
            if b.kind == OutcomeKind::Panic {
                rep.findings.push(finding("panic", &b.panic_site, format!("{}: {}", case.label, b.text)));
                return;
            }
            let message = |t: &str| -> String {
                t.lines()
                    .nth(1)
                    .and_then(|l| l.split_once(": error: ").map(|x| x.1.to_string()))
                    .unwrap_or_default()
            };
            let same = if a.kind == OutcomeKind::Ok {
                b.kind == OutcomeKind::Ok && a.text == b.text
            } else {
                b.kind == a.kind && message(&a.text) == message(&b.text)
            };
            if !same && case.label.starts_with("W3:") {
                // One shape is outside what the statement's two exceptions settle: a bare line
                // break that, after argument substitution, ends up between the name of a
                // function-like macro and its "(" (RSSL does not look across it, C does). The
                // reference model recognises exactly that shape in the variant.
                // (the model does not read splices: it is shown the same insertions with every
                // splice replaced by a blank)
                let mut tt = tx.threads[0].tasks[0].clone();
                for f in tt.faults.iter_mut() {
                    if f.kind == FaultKind::Trivia {
                        f.b = 1;
                    }
                }
                let mv = model::run(&case.fss[tt.fs], &tt.faults, &tt.entry, &tt.defines);
                if matches!(&mv.verdict, Verdict::Unmodelled(why) if why.starts_with("line break between a function-like macro name and (")) {
                    rep.count("trivia_not_judged_line_break_reaches_a_macro_name_by_substitution", 1);
                    return;
                }
            }
            if !same {
                rep.findings.push(finding(
                    "trivia",
                    "trivia-changes-result",
                    format!(
                        "{}: inserting whitespace / comments / splices at token boundaries changes the result at {} ({:?})",
                        case.label,
                        crate::case::first_difference(&a.text, &b.text),
                        b.text.lines().skip(1).take(3).collect::<Vec<_>>().join(" | ")
                    ),
                ));
            }
        }
        "diag-separators" => {
            // every way of separating two tokens gives the same result
            let Some(shape) = case.fss[task.fs].files.get(&task.entry) else {
                return;
            };
            let mut first: Option<(String, TaskResult)> = None;
            for sep in SEPARATORS {
                let mut fss = case.fss.clone();
                fss[task.fs].files.insert(task.entry.clone(), shape.replace("@@", sep));
                let res = crate::exec::run_exec(ex, &fss);
                let r = res.results.into_iter().next().unwrap().into_iter().next().unwrap();
                rep.absorb_task(&r);
                rep.count("separator_variants", 1);
                if r.kind == OutcomeKind::Panic {
                    rep.findings.push(finding("panic", &r.panic_site, format!("{}: {}", case.label, r.text)));
                    return;
                }
                let message = |t: &str| -> String {
                    t.lines()
                        .nth(1)
                        .and_then(|l| l.split_once("error: ").map(|x| x.1.to_string()))
                        .unwrap_or_default()
                };
                match &first {
                    None => first = Some((sep.to_string(), r)),
                    Some((sep0, r0)) => {
                        let same = if r0.kind == OutcomeKind::Ok {
                            r.kind == OutcomeKind::Ok && r.text == r0.text
                        } else {
                            r.kind == r0.kind && message(&r.text) == message(&r0.text)
                        };
                        if !same {
                            rep.findings.push(finding(
                                "trivia",
                                "separator-changes-result",
                                format!(
                                    "{}: tokens separated by {sep0:?} give {:?}, separated by {sep:?} they give {:?}",
                                    case.label,
                                    r0.text.lines().take(2).collect::<Vec<_>>().join(" | "),
                                    r.text.lines().take(2).collect::<Vec<_>>().join(" | ")
                                ),
                            ));
                            return;
                        }
                    }
                }
            }
            rep.nontrivial.insert(digest);
        }
        "diag-crlf" => {
            let a = run_single(case, ex, rep);
            let mut cx = ex.clone();
            cx.threads[0].tasks[0]
                .faults
                .push(Fault::new(FaultKind::Crlf, Sel::All));
            let b = run_single(case, &cx, rep);
            rep.nontrivial.insert(digest);
            rep.count("crlf_trees_compared", 1);
            if a.kind == OutcomeKind::Ok && a.text != b.text || a.kind != b.kind {
                rep.findings.push(finding(
                    "trivia",
                    "crlf-changes-output",
                    format!(
                        "{}: the same tree with CRLF line ends gives a different result at {}",
                        case.label,
                        crate::case::first_difference(&a.text, &b.text)
                    ),
                ));
            }
        }
        _ => {}
    }
    let _ = Target::Dx;
}
