//! Seams S7 and S8 - wall clock and process environment. rssl reads neither today; a compile that
//! starts to (a "generated at" header, a diagnostic clipped to $COLUMNS) stops being a function
//! of its inputs, and the only way to see that in one process is to own both.
//!
//! S7: `clock_gettime` is interposed like `getrandom`. A task thread reads a simulated clock: a
//! base derived from its hash key (so two executions of one scenario never share it) that jumps
//! by 0.2 to 3.2 seconds on every read, differently in every execution. Harness threads (no base set) get the real clock by
//! raw system call, so watchdogs and wall-time accounting are unaffected.
//!
//! S8: before the task threads of an execution start, a dozen well-known variables are set to
//! values derived from the execution's key (or removed).

use std::cell::Cell;
use std::sync::atomic::{AtomicU64, Ordering};

thread_local! {
    static BASE: Cell<Option<u64>> = const { Cell::new(None) };
    static READS: Cell<u64> = const { Cell::new(0) };
    /// simulated time elapsed since BASE, in milliseconds
    static ELAPSED_MS: Cell<u64> = const { Cell::new(0) };
}

/// Clock reads made by task threads (all of them): expected to stay 0 on a tree that holds C07
pub static TASK_READS: AtomicU64 = AtomicU64::new(0);

#[repr(C)]
pub struct Timespec {
    tv_sec: i64,
    tv_nsec: i64,
}

unsafe extern "C" {
    fn syscall(num: i64, ...) -> i64;
}

#[cfg(target_arch = "x86_64")]
const SYS_CLOCK_GETTIME: i64 = 228;
#[cfg(target_arch = "aarch64")]
const SYS_CLOCK_GETTIME: i64 = 113;

/// Put the calling thread on the simulated clock
pub fn set_thread_clock(key: u64) {
    BASE.with(|b| b.set(Some(1_500_000_000 + key % 400_000_000)));
    READS.with(|r| r.set(0));
    ELAPSED_MS.with(|r| r.set(0));
}

/// Back to the real clock (end of a task thread's subject work)
pub fn clear_thread_clock() {
    BASE.with(|b| b.set(None));
}

/// # Safety
/// Called by std / libc users with a valid `timespec` pointer.
#[unsafe(no_mangle)]
pub unsafe extern "C" fn clock_gettime(clock_id: i32, ts: *mut Timespec) -> i32 {
    let base = BASE.try_with(|b| b.get()).ok().flatten();
    match base {
        Some(base) if !ts.is_null() => {
            let n = READS.with(|r| {
                let v = r.get();
                r.set(v + 1);
                v
            });
            TASK_READS.fetch_add(1, Ordering::Relaxed);
            // every read is later than the one before, by 0.2 to 3.2 simulated seconds; how much
            // depends on the thread's base, so that a duration measured by one execution is not
            // the duration another execution measures
            let step = 200 + crate::prng::mix64(base ^ n.wrapping_mul(0x9E37_79B9_7F4A_7C15)) % 3000;
            let ms = ELAPSED_MS.with(|e| {
                let v = e.get() + step;
                e.set(v);
                v
            });
            // SAFETY: caller guarantees ts is valid
            unsafe {
                (*ts).tv_sec = (base + ms / 1000) as i64;
                (*ts).tv_nsec = ((ms % 1000) * 1_000_000) as i64;
            }
            0
        }
        // SAFETY: forwards the caller's arguments to the kernel unchanged
        _ => unsafe { syscall(SYS_CLOCK_GETTIME, clock_id as i64, ts) as i32 },
    }
}

/// The simulated environment of one execution, a function of its key
pub fn environment(key: u64) -> Vec<(&'static str, Option<String>)> {
    let pick = |salt: u64, n: u64| crate::prng::mix64(key ^ salt) % n;
    let opt = |salt: u64, v: String| if pick(salt ^ 0xF00D, 3) == 0 { None } else { Some(v) };
    vec![
        ("COLUMNS", opt(1, (20 + pick(1, 180)).to_string())),
        ("LINES", opt(2, (10 + pick(2, 90)).to_string())),
        ("TERM", opt(3, ["dumb", "xterm-256color", "vt100"][pick(3, 3) as usize].to_string())),
        ("LANG", opt(4, ["C", "en_US.UTF-8", "de_DE.UTF-8", "ja_JP.UTF-8"][pick(4, 4) as usize].to_string())),
        ("LC_ALL", opt(5, ["C", "POSIX", "tr_TR.UTF-8"][pick(5, 3) as usize].to_string())),
        ("NO_COLOR", opt(6, "1".to_string())),
        ("CLICOLOR_FORCE", opt(7, "1".to_string())),
        ("TZ", opt(8, ["UTC", "Asia/Tokyo", "America/Los_Angeles"][pick(8, 3) as usize].to_string())),
        ("USER", opt(9, format!("user{}", pick(9, 1000)))),
        ("HOME", opt(10, format!("/home/user{}", pick(10, 1000)))),
        ("TMPDIR", opt(11, format!("/tmp/t{}", pick(11, 1000)))),
        ("SOURCE_DATE_EPOCH", opt(12, (1_400_000_000 + pick(12, 300_000_000)).to_string())),
        ("RUST_LOG", opt(13, ["trace", "debug", "off"][pick(13, 3) as usize].to_string())),
        ("HOSTNAME", opt(14, format!("host{}", pick(14, 1000)))),
    ]
}

/// Apply the simulated environment. Called before the task threads of an execution exist.
pub fn apply_environment(key: u64) {
    // (the working directory is left alone: the panic hook's symbolisation of backtraces was
    // observed to depend on it, which made panic fingerprints differ between executions)
    for (name, value) in environment(key) {
        // SAFETY: no other thread of this process reads or writes the environment here - the
        // worker is single threaded between executions
        unsafe {
            match value {
                Some(v) => std::env::set_var(name, v),
                None => std::env::remove_var(name),
            }
        }
    }
}

/// Start-up self check: a thread on the simulated clock sees strictly increasing seconds that
/// depend on its key; a thread that is not sees the real clock
pub fn self_check() -> Result<(), String> {
    let sim = |key: u64| {
        std::thread::spawn(move || {
            set_thread_clock(key);
            let a = std::time::SystemTime::now();
            let b = std::time::SystemTime::now();
            clear_thread_clock();
            (
                a.duration_since(std::time::UNIX_EPOCH).map(|d| d.as_secs()).unwrap_or(0),
                b.duration_since(std::time::UNIX_EPOCH).map(|d| d.as_secs()).unwrap_or(0),
            )
        })
        .join()
        .unwrap()
    };
    let (a1, b1) = sim(7);
    let (a2, _) = sim(7);
    let (a3, _) = sim(1_000_003);
    if a1 != a2 || a1 == a3 || b1 < a1 {
        return Err(format!(
            "clock seam: SystemTime::now() on a task thread is not the simulated clock ({a1},{b1},{a2},{a3})"
        ));
    }
    let real = std::time::SystemTime::now()
        .duration_since(std::time::UNIX_EPOCH)
        .map(|d| d.as_secs())
        .unwrap_or(0);
    if real < 1_700_000_000 {
        return Err(format!("clock seam: a harness thread does not see the real clock ({real})"));
    }
    Ok(())
}


// ---------------------------------------------------------------------------------------------
// S9 - the disk behind the include handler's back. Every byte of source is supposed to arrive
// through the handler; a compiler that also looks at the file system (a "convenience" fallback
// for names the handler does not know) makes the disk and the working directory inputs. A worker
// therefore lives in a private scratch directory, and for small trees every execution finds
// decoy files there under the very names of the scenario's files - with contents that differ
// from execution to execution. Nothing on the unchanged tree ever opens them.

/// Move the calling process into a fresh private directory (workers call this once at start-up,
/// before anything could have looked at the working directory)
pub fn enter_scratch_directory() -> Option<std::path::PathBuf> {
    // (the supervisor names a parent directory and removes it with everything in it when the
    // campaign ends, so that workers that were killed leave nothing behind)
    let parent = std::env::var(SCRATCH_ENV)
        .map(std::path::PathBuf::from)
        .unwrap_or_else(|_| std::env::temp_dir());
    let dir = parent.join(format!("rssl-sim-{}", std::process::id()));
    std::fs::create_dir_all(&dir).ok()?;
    std::env::set_current_dir(&dir).ok()?;
    Some(dir)
}

pub const SCRATCH_ENV: &str = "RSSL_SIM_SCRATCH";

/// Scratch parents of campaigns whose supervisor no longer exists (it was killed before it could
/// clean up) are removed by the next campaign
pub fn remove_stale_scratch_parents() {
    let Ok(entries) = std::fs::read_dir(std::env::temp_dir()) else {
        return;
    };
    for e in entries.flatten() {
        let name = e.file_name().to_string_lossy().to_string();
        if let Some(pid) = name.strip_prefix("rssl-sim-run-").and_then(|p| p.parse::<u32>().ok())
            && !std::path::Path::new(&format!("/proc/{pid}")).exists()
        {
            let _ = std::fs::remove_dir_all(e.path());
        }
    }
}

/// The supervisor's side: the parent directory of this campaign's workers
pub fn campaign_scratch_parent() -> std::path::PathBuf {
    std::env::temp_dir().join(format!("rssl-sim-run-{}", std::process::id()))
}

fn decoy_safe(name: &str) -> bool {
    !name.is_empty()
        && !name.starts_with('/')
        && name.len() < 80
        && name.split('/').all(|seg| !seg.is_empty() && seg != ".." && seg != ".")
        && name.bytes().all(|b| b.is_ascii_alphanumeric() || matches!(b, b'_' | b'.' | b'/' | b'-'))
}

/// Decoy files for one execution; removed again when dropped
pub struct Decoys {
    files: Vec<std::path::PathBuf>,
}

pub static DECOYS_WRITTEN: AtomicU64 = AtomicU64::new(0);

impl Decoys {
    /// Only when the process is in its scratch directory (never in /verif or a user's directory)
    pub fn plant(names: &[&String], key: u64) -> Decoys {
        let mut files = Vec::new();
        let in_scratch = std::env::current_dir()
            .ok()
            .map(|d| {
                d.starts_with(std::env::temp_dir())
                    && d.file_name().is_some_and(|n| n.to_string_lossy().starts_with("rssl-sim-"))
            })
            .unwrap_or(false);
        if !in_scratch || names.len() > 12 {
            return Decoys { files };
        }
        for name in names {
            if !decoy_safe(name) {
                continue;
            }
            let path = std::path::PathBuf::from(name.as_str());
            if let Some(parent) = path.parent()
                && !parent.as_os_str().is_empty()
            {
                let _ = std::fs::create_dir_all(parent);
            }
            let text = format!(
                "decoy_{:x} {} ;\nstatic const int decoy_{:x} = {} ;\n",
                key,
                key % 97,
                key,
                key % 89
            );
            if std::fs::write(&path, text).is_ok() {
                DECOYS_WRITTEN.fetch_add(1, Ordering::Relaxed);
                files.push(path);
            }
        }
        Decoys { files }
    }
}

impl Drop for Decoys {
    fn drop(&mut self) {
        for f in &self.files {
            let _ = std::fs::remove_file(f);
        }
    }
}
