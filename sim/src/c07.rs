//! C07 - compilation is deterministic: workloads and executions.

use crate::case::Case;
use crate::exec::{Target, TaskSpec};
use crate::plan::{Ctx, Tier, det_case, snippet_fs, w1_scenarios};

const SNIPPET_BATCH: u64 = 16;

fn execs_per_scenario(ctx: &Ctx) -> usize {
    match ctx.tier {
        Tier::Quick => 6,
        Tier::Thorough => 16,
    }
}

pub fn sections(ctx: &Ctx) -> Vec<(&'static str, u64)> {
    let w1 = w1_scenarios(&ctx.corpus, true).len() as u64;
    let (w2, w3, w4) = match ctx.tier {
        Tier::Quick => (800, 400, 300),
        Tier::Thorough => (10_000, 2_000, 5_000),
    };
    // rejected programs of many shapes: snippets with one token lost, duplicated or swapped
    let w5t = match ctx.tier {
        Tier::Quick => 120,
        Tier::Thorough => 1200,
    } * ctx.scale;
    // rejected (and some still accepted) multi-entity programs: W2 with one token fault
    let w2t = match ctx.tier {
        Tier::Quick => 200,
        Tier::Thorough => 4000,
    } * ctx.scale;
    let w5 = match ctx.tier {
        Tier::Quick => (ctx.snippets.len() as u64).div_ceil(SNIPPET_BATCH).min(24),
        Tier::Thorough => (ctx.snippets.len() as u64).div_ceil(SNIPPET_BATCH),
    };
    vec![
        ("w1", w1),
        ("w2", w2 * ctx.scale),
        ("w3", w3 * ctx.scale),
        ("w4", w4 * ctx.scale),
        ("w5", w5),
        ("w5-tokens", w5t),
        ("w2-tokens", w2t),
        // (twice: a two-element order has to differ between six executions, which fails to
        // happen once in 32)
        ("w2-tails", crate::w2::TAILS.len() as u64 * 3 * 2),
        // the caller's own table handed to rssl's built-in handler, twice
        ("table", if ctx.tier == Tier::Quick { 600 } else { 6000 }),
    ]
}

pub fn cases(ctx: &Ctx, section: &str, i: u64) -> Vec<Case> {
    let s = execs_per_scenario(ctx);
    let mut rng = ctx.rng().sub_n(section, i);
    match section {
        "w1" => {
            let scs = w1_scenarios(&ctx.corpus, true);
            let sc = &scs[i as usize];
            let e = &ctx.corpus.entries[sc.entry];
            vec![det_case(
                &sc.label,
                ctx.corpus.trees[e.tree].clone(),
                sc.task.clone(),
                &ctx.corpus,
                &mut rng,
                s,
            )]
        }
        "w2" => {
            let (label, fs, task) = crate::w2::scenario(&mut rng.sub("w2"), i);
            vec![det_case(&label, fs, task, &ctx.corpus, &mut rng, s)]
        }
        "w3" => {
            // Generated include graphs, fault free, through compile()
            // (odd units: bare token lists observed through the preprocess API, whose result
            // includes the file:line:col of every token - the table diagnostics are made from)
            let (g, task) = if i % 2 == 0 {
                let g = crate::w3::generate(
                    &mut rng.sub("w3"),
                    crate::w3::Mode::Hostile,
                    crate::w3::Form::Compile,
                );
                let task = crate::w3::compile_task(&g, &mut rng.sub("task"));
                (g, task)
            } else {
                let g = crate::w3::generate(
                    &mut rng.sub("w3"),
                    crate::w3::Mode::Hostile,
                    crate::w3::Form::Pre,
                );
                let task = crate::w3::preprocess_task(&g);
                (g, task)
            };
            vec![det_case(
                &format!("W3:graph#{i}"),
                g.fs.clone(),
                task,
                &ctx.corpus,
                &mut rng,
                s,
            )]
        }
        "w4" => {
            // Faulted scenarios: the fault plan is part of the input, the executions still only
            // differ in schedule. Alternates corpus and generated graphs.
            let (label, fs, task) = crate::c08::faulted_scenario(ctx, &mut rng.sub("w4"), i);
            vec![det_case(&label, fs, task, &ctx.corpus, &mut rng, s.min(4))]
        }
        "table" => {
            let g = crate::w3::generate(
                &mut rng.sub("w3"),
                crate::w3::Mode::Plain,
                crate::w3::Form::Compile,
            );
            let mut task = crate::w3::compile_task(&g, &mut rng.sub("task"));
            task.caller_table = true;
            vec![det_case(&format!("W3:table#{i}"), g.fs.clone(), task, &ctx.corpus, &mut rng, 2)]
        }
        "w2-tails" => {
            let (label, fs, task) = crate::w2::tail_scenario(((i / 3) as usize) % crate::w2::TAILS.len(), (i % 3) as usize);
            vec![det_case(&label, fs, task, &ctx.corpus, &mut rng, s)]
        }
        "w2-tokens" => {
            let (label, fs, task) = crate::w2::scenario(&mut rng.sub("w2"), i);
            let src = fs.files.values().next().cloned().unwrap_or_default();
            let faults = crate::c08::token_faults(&src);
            if faults.is_empty() {
                return vec![];
            }
            let (what, text) = &faults[rng.sub("fault").below(faults.len() as u64) as usize];
            vec![det_case(
                &format!("{label} {what}"),
                snippet_fs(text),
                task,
                &ctx.corpus,
                &mut rng,
                4,
            )]
        }
        "w5-tokens" => {
            let mut out = Vec::new();
            if ctx.snippets.is_empty() {
                return out;
            }
            for n in 0..24u64 {
                let mut r = rng.sub_n("pick", n);
                let si = r.below(ctx.snippets.len() as u64) as usize;
                let faults = crate::c08::token_faults(&ctx.snippets[si]);
                if faults.is_empty() {
                    continue;
                }
                let (what, text) = &faults[r.below(faults.len() as u64) as usize];
                let target = [Target::Dx, Target::Vk, Target::Msl][(n % 3) as usize];
                let mut t = TaskSpec::compile(0, "test.rssl", target);
                t.no_pipeline = true;
                out.push(det_case(
                    &format!("W5:snippet#{si}@{} {what}", target.name()),
                    snippet_fs(text),
                    t,
                    &ctx.corpus,
                    &mut r,
                    3,
                ));
            }
            out
        }
        "w5" => {
            // Snippets from the repository's own tests: all batches in thorough; in quick the
            // seed picks which batches
            let total = (ctx.snippets.len() as u64).div_ceil(SNIPPET_BATCH);
            let batch = if ctx.tier == Tier::Quick {
                let n = sections(ctx).iter().find(|s| s.0 == "w5").unwrap().1;
                let start = ctx.rng().sub("w5-phase").below(total.max(1));
                (start + i * total / n.max(1)) % total.max(1)
            } else {
                i
            };
            let mut out = Vec::new();
            let lo = (batch * SNIPPET_BATCH) as usize;
            let hi = (lo + SNIPPET_BATCH as usize).min(ctx.snippets.len());
            for (n, src) in ctx.snippets[lo..hi].iter().enumerate() {
                let target = [Target::Dx, Target::Vk, Target::Msl][(lo + n) % 3];
                let mut t = TaskSpec::compile(0, "test.rssl", target);
                t.no_pipeline = true;
                let mut r = rng.sub_n("snippet", n as u64);
                out.push(det_case(
                    &format!("W5:snippet#{}@{}", lo + n, target.name()),
                    snippet_fs(src),
                    t,
                    &ctx.corpus,
                    &mut r,
                    3,
                ));
            }
            out
        }
        _ => vec![],
    }
}
