//! Reference model of textual inclusion for the directive subset workload W3 emits.
//!
//! A line-oriented interpreter that shares no code with rssl. It reads the same simulated file
//! system (through `FsSpec::resolve` and the same fault plan) and produces the token sequence
//! that pasting the files into each other yields, together with the sequence of include
//! directives it had to follow. Anything outside its subset makes it answer `Unmodelled`, which
//! callers count and skip - never judge.

use crate::simfs::{Fault, FaultKind, FsSpec, Sel, apply_content_faults};
use std::collections::BTreeSet;

#[derive(Clone, Debug, PartialEq)]
pub enum Atom {
    Id(String),
    Int(u64),
    Punct(char),
}

/// A token with the place its text was written
#[derive(Clone, Debug, PartialEq)]
pub struct Tok {
    pub atom: Atom,
    pub file: String,
    pub line: u32,
    pub col: u32,
    /// the spelling of a numeric literal (0x10, 007); empty for other tokens
    pub text: String,
    /// this name was met while its macro was being replaced and is never replaced again,
    /// wherever it is examined later (C 6.10.3.4p2)
    pub painted: bool,
}

impl Tok {
    /// `{:?}` of the rssl token this corresponds to (identifiers that are keywords excluded by
    /// the generator)
    pub fn render(&self) -> String {
        match &self.atom {
            Atom::Id(s) => match s.as_str() {
                // the words the generator pastes together (an identifier that spells a keyword is
                // that keyword, however it came about)
                "static" => "Static".into(),
                "const" => "Const".into(),
                "return" => "Return".into(),
                "true" => "True".into(),
                "inout" => "InOut".into(),
                "struct" => "Struct".into(),
                _ => format!("Id(\"{s}\")"),
            },
            Atom::Int(n) => format!("LiteralInt({n})"),
            Atom::Punct(c) => match c {
                ';' => "Semicolon".into(),
                '(' => "LeftParen".into(),
                ')' => "RightParen".into(),
                ',' => "Comma".into(),
                '=' => "Equals".into(),
                '+' => "Plus".into(),
                '!' => "ExclamationPoint".into(),
                '{' => "LeftBrace".into(),
                '}' => "RightBrace".into(),
                c => format!("Punct({c})"),
            },
        }
    }
    pub fn loc(&self) -> String {
        format!("{}:{}:{}", self.file, self.line, self.col)
    }
}

#[derive(Clone, Debug, PartialEq)]
pub enum FailKind {
    /// an #include whose file cannot be loaded; carries the include string
    Load(String),
    /// a byte the lexer cannot accept
    Lex,
    /// #if whose condition does not evaluate
    Condition,
    /// #else / #endif without #if, or #if never closed: reported without position
    Chain,
    /// include recursion that never ends: any error is acceptable, dying is not
    Depth,
    /// a function-like macro invoked with the wrong number of arguments: reported without position
    Macro,
}

#[derive(Clone, Debug, PartialEq)]
pub struct Failure {
    pub kind: FailKind,
    /// real name of the file and 1-based line of the offending directive; None when rssl reports
    /// no position (entry file failure, chain errors)
    pub at: Option<(String, u32)>,
    /// 1-based line on which the offending construct starts, when that is not the reported line
    /// (a comment that never ends is reported at the end of the file)
    pub starts_at: Option<u32>,
}

#[derive(Clone, Debug)]
pub struct IncludeStep {
    pub string: String,
    /// real name of the including file
    pub parent: String,
    pub resolved: Option<String>,
}

#[derive(Clone, Debug)]
pub enum Verdict {
    Ok(Vec<Tok>),
    Fail(Failure),
    /// outside the modelled subset, or too expensive: not judged
    Unmodelled(String),
}

#[derive(Clone, Debug)]
pub struct ModelRun {
    pub verdict: Verdict,
    /// active include directives in the order they were met (up to the failure)
    pub walk: Vec<IncludeStep>,
    /// files whose contents were pasted at least once (real names), in first-paste order
    pub pasted: Vec<String>,
    pub once_skips: u32,
    pub cross_file_redefs: u32,
    pub max_depth: u32,
    /// names left alone because their macro was being replaced around them (self reference)
    pub self_references: u32,
}

#[derive(Clone, Debug)]
enum Body {
    Object(Vec<Tok>),
    /// `#define CAT(a,b) a##b`
    Paste,
    /// `#define F(a,b) body` without # and ##
    Function { params: Vec<String>, body: Vec<Tok> },
}

#[derive(Clone, Debug)]
struct MacroDef {
    name: String,
    body: Body,
    file: String,
}

#[derive(Clone, Copy, PartialEq)]
enum Gate {
    Enabled,
    DisabledInner,
    DisabledOuter,
    /// after #else (for malformed-chain detection)
    ElseEnabled,
    ElseDisabled,
}

struct State<'a> {
    fs: &'a FsSpec,
    faults: &'a [Fault],
    macros: Vec<MacroDef>,
    chain: Vec<Gate>,
    once: BTreeSet<String>,
    out: Vec<Tok>,
    /// text lines since the last directive of the current file, with line-break markers
    segment: Vec<Tok>,
    walk: Vec<IncludeStep>,
    pasted: Vec<String>,
    steps: u64,
    once_skips: u32,
    cross_file_redefs: u32,
    max_depth: u32,
    self_references: std::cell::Cell<u32>,
}

const STEP_BUDGET: u64 = 60_000;
const DEPTH_LIMIT: u32 = 200;

enum Stop {
    Fail(Failure),
    Unmodelled(String),
}

fn is_ident_start(c: char) -> bool {
    c.is_ascii_alphabetic() || c == '_'
}

/// Tokenise a text line of the subset. Comments are dropped. None if a character outside the
/// subset appears.
fn lex_line(text: &str, file: &str, line: u32, col0: u32) -> Result<Vec<Tok>, String> {
    let b: Vec<char> = text.chars().collect();
    let mut out = Vec::new();
    let mut i = 0usize;
    // Lines of an error gadget that C14 plants (all their names start with zz_) are outside the
    // macro subset by design - operators, brackets, member access. The model only has to carry
    // them to the place where they are emitted: no zz_ name is ever a macro.
    let lenient = text.contains("zz_");
    // column counts bytes; the subset is ASCII except an optional BOM handled by the caller
    while i < b.len() {
        let c = b[i];
        let col = col0 + i as u32;
        if c == ' ' || c == '\t' || c == '\r' {
            i += 1;
        } else if c == '/' && b.get(i + 1) == Some(&'/') {
            break;
        } else if c == '/' && b.get(i + 1) == Some(&'*') {
            let mut j = i + 2;
            loop {
                if j + 1 >= b.len() {
                    return Err("block comment leaves the line".into());
                }
                if b[j] == '*' && b[j + 1] == '/' {
                    break;
                }
                j += 1;
            }
            i = j + 2;
        } else if is_ident_start(c) {
            let s = i;
            while i < b.len() && (b[i].is_ascii_alphanumeric() || b[i] == '_') {
                i += 1;
            }
            out.push(Tok {
                atom: Atom::Id(b[s..i].iter().collect()),
                file: file.to_string(),
                line,
                col,
                text: String::new(),
                painted: false,
            });
        } else if c.is_ascii_digit() {
            let s = i;
            // decimal, 0x hexadecimal and 0 octal literals without suffix
            let hex = c == '0' && matches!(b.get(i + 1), Some('x'));
            if hex {
                i += 2;
                while i < b.len() && b[i].is_ascii_hexdigit() {
                    i += 1;
                }
            } else {
                while i < b.len() && b[i].is_ascii_digit() {
                    i += 1;
                }
            }
            if i < b.len() && (is_ident_start(b[i]) || b[i] == '.') && !lenient {
                return Err("numeric literal with suffix".into());
            }
            let txt: String = b[s..i].iter().collect();
            let n: u64 = if hex {
                if txt.len() <= 2 {
                    return Err("empty hex literal".into());
                }
                u64::from_str_radix(&txt[2..], 16).map_err(|_| "int too large".to_string())?
            } else if txt.len() > 1 && txt.starts_with('0') {
                u64::from_str_radix(&txt, 8).map_err(|_| "bad octal literal".to_string())?
            } else {
                txt.parse().map_err(|_| "int too large".to_string())?
            };
            out.push(Tok {
                atom: Atom::Int(n),
                file: file.to_string(),
                line,
                col,
                text: txt,
                painted: false,
            });
        } else if matches!(c, ';' | '(' | ')' | ',' | '=' | '+' | '!' | '{' | '}')
            || (lenient && c.is_ascii_punctuation() && !matches!(c, '#' | '"' | '\'' | '\\' | '/'))
        {
            out.push(Tok {
                atom: Atom::Punct(c),
                file: file.to_string(),
                line,
                col,
                text: String::new(),
                painted: false,
            });
            i += 1;
        } else {
            return Err(format!("character {c:?} outside the modelled subset"));
        }
    }
    Ok(out)
}


/// Replace comments by spaces without moving any other byte, so that lines and byte columns stay
/// what they are in the file. Returns the masked text and, if a block comment never ends, the
/// 1-based line it starts on.
fn mask_comments(text: &str) -> (String, Option<u32>, Option<u32>) {
    let b = text.as_bytes();
    let mut out: Vec<u8> = Vec::with_capacity(b.len());
    let mut i = 0;
    let mut line = 1u32;
    let mut unterminated = None;
    // the first line on which a comment that began on an earlier line is followed by more text:
    // that text belongs to the logical line the comment began on (a line end inside a comment is
    // no line end), which the line-by-line reading below does not reproduce
    let mut joined: Option<u32> = None;
    while i < b.len() {
        let c = b[i];
        if c == b'\n' {
            line += 1;
            out.push(c);
            i += 1;
        } else if c == b'"' {
            // a string (include operand): copied verbatim up to its end on this line
            let mut j = i + 1;
            while j < b.len() && b[j] != b'"' && b[j] != b'\n' {
                j += 1;
            }
            let end = if j < b.len() && b[j] == b'"' { j + 1 } else { j };
            out.extend_from_slice(&b[i..end]);
            i = end;
        } else if c == b'/' && b.get(i + 1) == Some(&b'/') {
            while i < b.len() && b[i] != b'\n' {
                out.push(if b[i] == b'\r' { b'\r' } else { b' ' });
                i += 1;
            }
        } else if c == b'/' && b.get(i + 1) == Some(&b'*') {
            let start_line = line;
            let mut j = i + 2;
            let mut closed = false;
            while j < b.len() {
                if b[j] == b'*' && b.get(j + 1) == Some(&b'/') {
                    closed = true;
                    break;
                }
                j += 1;
            }
            let end = if closed { j + 2 } else { b.len() };
            for &x in &b[i..end] {
                if x == b'\n' {
                    line += 1;
                    out.push(x);
                } else if x == b'\r' {
                    out.push(x);
                } else {
                    out.push(b' ');
                }
            }
            if !closed {
                unterminated = Some(start_line);
            } else if line != start_line && joined.is_none() {
                let rest = &b[end..];
                let stop = rest.iter().position(|x| *x == b'\n').unwrap_or(rest.len());
                if rest[..stop].iter().any(|x| !matches!(x, b' ' | b'\t' | b'\r')) {
                    joined = Some(line);
                }
            }
            i = end;
        } else {
            out.push(c);
            i += 1;
        }
    }
    (String::from_utf8(out).unwrap_or_default(), unterminated, joined)
}

const LINE_BREAK: Atom = Atom::Punct('\n');

fn is_break(t: &Tok) -> bool {
    t.atom == LINE_BREAK
}

impl State<'_> {
    /// Macro replacement works on the text between two directives as one token sequence (an
    /// invocation may span lines); line breaks are kept as markers because RSSL does not look
    /// across one for the "(" of a function-like macro
    fn flush_segment(&mut self) -> Result<(), Stop> {
        let segment = std::mem::take(&mut self.segment);
        if self.active() && segment.iter().any(|t| !is_break(t)) {
            let mut out = Vec::new();
            self.expand(&segment, &mut Vec::new(), &mut out)?;
            self.out.extend(out.into_iter().filter(|t| !is_break(t)));
        }
        Ok(())
    }

    fn active(&self) -> bool {
        self.chain
            .iter()
            .all(|g| matches!(g, Gate::Enabled | Gate::ElseEnabled))
    }

    fn defined(&self, name: &str) -> bool {
        self.macros.iter().any(|m| m.name == name)
    }

    fn is_function_like(&self, name: &str) -> bool {
        self.macros
            .iter()
            .any(|m| m.name == name && !matches!(m.body, Body::Object(_)))
    }

    /// C rescans a replacement together with the rest of the source: a replacement that ends in
    /// the name of a function-like macro picks up a following "(" from the source. The name is not
    /// picked up when it is the macro that was just replaced or one that is being replaced around
    /// this point (C paints those; RSSL skips disabled macros and the last applied function).
    /// Returns true when the rest of `toks` was consumed by the rescan.
    fn rescan_trailing_name(
        &self,
        just_expanded: &str,
        before_len: usize,
        toks: &[Tok],
        i: &mut usize,
        disabled: &mut Vec<String>,
        forbidden: &[String],
        out: &mut Vec<Tok>,
    ) -> Result<bool, Stop> {
        // A replacement may end in line-break markers that came in with an argument: the name in
        // front of them is then separated from a following "(" by a line break - C invokes it,
        // RSSL does not
        if out.last().is_some_and(is_break) {
            let name = out.iter().rev().find(|t| !is_break(t));
            let mut j = *i;
            while toks.get(j).is_some_and(is_break) {
                j += 1;
            }
            if let Some(Tok { atom: Atom::Id(n), painted, .. }) = name
                && self.is_function_like(n)
                && !*painted
                && n != just_expanded
                && !disabled.contains(n)
                && toks.get(j).map(|t| &t.atom) == Some(&Atom::Punct('('))
            {
                return Err(Stop::Unmodelled(
                    "line break between a function-like macro name and (".into(),
                ));
            }
            return Ok(false);
        }
        let Some(Tok {
            atom: Atom::Id(last),
            ..
        }) = out.last()
        else {
            return Ok(false);
        };
        if !self.is_function_like(last) {
            return Ok(false);
        }
        if toks.get(*i).is_some_and(is_break) {
            let mut j = *i;
            while toks.get(j).is_some_and(is_break) {
                j += 1;
            }
            if toks.get(j).map(|t| &t.atom) == Some(&Atom::Punct('('))
                && last != just_expanded
                && !disabled.contains(last)
            {
                return Err(Stop::Unmodelled(
                    "line break between a function-like macro name and (".into(),
                ));
            }
            return Ok(false);
        }
        if toks.get(*i).map(|t| &t.atom) != Some(&Atom::Punct('(')) {
            return Ok(false);
        }
        if last == just_expanded || disabled.contains(last) {
            return Ok(false);
        }
        if out.last().is_some_and(|t| t.painted) {
            return Ok(false);
        }
        if out.len() <= before_len {
            // the replacement was empty and the name stood in front of it: C does not go back to
            // it, RSSL does - outside the common subset
            return Err(Stop::Unmodelled(
                "function-like macro name, then a macro that expands to nothing, then (".into(),
            ));
        }
        if forbidden.contains(last) {
            return Err(Stop::Unmodelled(
                "an argument names a macro that is being expanded around it".into(),
            ));
        }
        // the name and the rest of the source are scanned as one sequence
        let name_tok = out.pop().unwrap();
        let mut rest: Vec<Tok> = Vec::with_capacity(toks.len() - *i + 1);
        rest.push(name_tok);
        rest.extend_from_slice(&toks[*i..]);
        // whether the macro whose replacement ended in the name is still "being replaced" while the
        // picked-up invocation is rescanned is left open by the C standard (DR 268): meeting it
        // again is outside the common subset
        let mut inner_forbidden: Vec<String> = forbidden.to_vec();
        inner_forbidden.push(just_expanded.to_string());
        self.expand_guarded(&rest, disabled, &inner_forbidden, out)?;
        *i = toks.len();
        Ok(true)
    }

    fn expand(&self, toks: &[Tok], disabled: &mut Vec<String>, out: &mut Vec<Tok>) -> Result<(), Stop> {
        self.expand_guarded(toks, disabled, &[], out)
    }

    /// Macro expansion with the expanding macro disabled during rescanning. `forbidden` are the
    /// macros being expanded around an argument: C leaves them alone inside the argument, RSSL
    /// expands arguments with a fresh state, so meeting one of them is outside the common subset.
    fn expand_guarded(
        &self,
        toks: &[Tok],
        disabled: &mut Vec<String>,
        forbidden: &[String],
        out: &mut Vec<Tok>,
    ) -> Result<(), Stop> {
        let mut i = 0;
        while i < toks.len() {
            let t = &toks[i];
            if let Atom::Id(name) = &t.atom
                && disabled.contains(name)
            {
                // the name of a macro that is being replaced around this point is not replaced -
                // and C never replaces this very token later either
                let mut p = t.clone();
                p.painted = true;
                out.push(p);
                self.self_references.set(self.self_references.get() + 1);
                i += 1;
                continue;
            }
            if t.painted {
                // marked earlier: never replaced again, wherever it is examined
                out.push(t.clone());
                i += 1;
                continue;
            }
            if let Atom::Id(name) = &t.atom
                && let Some(m) = self.macros.iter().find(|m| &m.name == name)
            {
                if forbidden.contains(name) {
                    return Err(Stop::Unmodelled(
                        "an argument names a macro that is being expanded around it".into(),
                    ));
                }
                match &m.body {
                    Body::Object(body) => {
                        let before_len = out.len();
                        disabled.push(name.clone());
                        let r = self.expand_guarded(body, disabled, forbidden, out);
                        disabled.pop();
                        r?;
                        i += 1;
                        if self.rescan_trailing_name(name, before_len, toks, &mut i, disabled, forbidden, out)? {
                            return Ok(());
                        }
                        continue;
                    }
                    Body::Function { params, body } => {
                        if toks.get(i + 1).map(|t| &t.atom) != Some(&Atom::Punct('(')) {
                            // C looks across line breaks for the "(", RSSL does not
                            let mut j = i + 1;
                            while toks.get(j).is_some_and(is_break) {
                                j += 1;
                            }
                            if j > i + 1 && toks.get(j).map(|t| &t.atom) == Some(&Atom::Punct('(')) {
                                return Err(Stop::Unmodelled(
                                    "line break between a function-like macro name and (".into(),
                                ));
                            }
                            out.push(t.clone());
                            i += 1;
                            continue;
                        }
                        // split the arguments at commas outside nested parentheses
                        let mut args: Vec<Vec<Tok>> = vec![Vec::new()];
                        let mut depth = 0u32;
                        let mut j = i + 2;
                        let mut closed = false;
                        while j < toks.len() {
                            match &toks[j].atom {
                                Atom::Punct('(') => {
                                    depth += 1;
                                    args.last_mut().unwrap().push(toks[j].clone());
                                }
                                Atom::Punct(')') => {
                                    if depth == 0 {
                                        closed = true;
                                        break;
                                    }
                                    depth -= 1;
                                    args.last_mut().unwrap().push(toks[j].clone());
                                }
                                Atom::Punct(',') if depth == 0 => args.push(Vec::new()),
                                // (a line break inside an argument is white space; the marker
                                // travels with the argument so that the places where RSSL treats
                                // it differently are still recognised after substitution)
                                _ => args.last_mut().unwrap().push(toks[j].clone()),
                            }
                            j += 1;
                        }
                        if !closed {
                            // the argument list never ends within this token sequence
                            return Err(Stop::Fail(Failure {
                                kind: FailKind::Macro,
                                at: None,
                                starts_at: None,
                            }));
                        }
                        // (a line break between the parentheses of a macro without parameters is no
                        // argument: C, and RSSL since its repair in round 8)
                        let arity_ok = if params.is_empty() {
                            args.len() == 1 && args[0].iter().all(is_break)
                        } else {
                            args.len() == params.len()
                        };
                        if !arity_ok {
                            return Err(Stop::Fail(Failure {
                                kind: FailKind::Macro,
                                at: None,
                                starts_at: None,
                            }));
                        }
                        // arguments are completely macro replaced before substitution; the
                        // macros being replaced around the invocation stay disabled inside them
                        let mut expanded: Vec<Vec<Tok>> = Vec::new();
                        for a in &args {
                            let mut ea = Vec::new();
                            self.expand_guarded(a, disabled, forbidden, &mut ea)?;
                            expanded.push(ea);
                        }
                        let mut replaced: Vec<Tok> = Vec::new();
                        for bt in body {
                            if let Atom::Id(b) = &bt.atom
                                && let Some(pi) = params.iter().position(|p| p == b)
                            {
                                replaced.extend(expanded.get(pi).cloned().unwrap_or_default());
                            } else {
                                replaced.push(bt.clone());
                            }
                        }
                        let before_len = out.len();
                        disabled.push(name.clone());
                        let r = self.expand_guarded(&replaced, disabled, forbidden, out);
                        disabled.pop();
                        r?;
                        i = j + 1;
                        if self.rescan_trailing_name(name, before_len, toks, &mut i, disabled, forbidden, out)? {
                            return Ok(());
                        }
                        continue;
                    }
                    Body::Paste => {
                        // CAT ( x , y ) with single-atom operands that are not macro names
                        if toks.get(i + 1).map(|t| &t.atom) != Some(&Atom::Punct('(')) {
                            let mut j = i + 1;
                            while toks.get(j).is_some_and(is_break) {
                                j += 1;
                            }
                            if j > i + 1 && toks.get(j).map(|t| &t.atom) == Some(&Atom::Punct('(')) {
                                return Err(Stop::Unmodelled(
                                    "line break between a function-like macro name and (".into(),
                                ));
                            }
                            out.push(t.clone());
                            i += 1;
                            continue;
                        }
                        let shape_ok = toks.len() >= i + 6
                            && toks[i + 3].atom == Atom::Punct(',')
                            && toks[i + 5].atom == Atom::Punct(')');
                        if !shape_ok {
                            return Err(Stop::Unmodelled("CAT use outside the subset".into()));
                        }
                        let (l, r) = (&toks[i + 2].atom, &toks[i + 4].atom);
                        for a in [l, r] {
                            if let Atom::Id(n) = a
                                && self.defined(n)
                            {
                                return Err(Stop::Unmodelled("## operand is a macro name".into()));
                            }
                        }
                        // pasting concatenates the spellings: reg ## 0x10 is the identifier reg0x10
                        let pasted = match (l, r) {
                            (Atom::Id(a), Atom::Id(b)) => format!("{a}{b}"),
                            (Atom::Id(a), Atom::Int(_)) => format!("{a}{}", toks[i + 4].text),
                            (Atom::Int(_), Atom::Int(_)) => {
                                // two plain decimal spellings paste into one decimal literal
                                let (a, b) = (&toks[i + 2].text, &toks[i + 4].text);
                                let plain = |x: &str| !x.is_empty() && x.bytes().all(|c| c.is_ascii_digit());
                                if !plain(a) || !plain(b) || a.starts_with('0') || a.len() + b.len() > 9 {
                                    return Err(Stop::Unmodelled("## of literals outside the subset".into()));
                                }
                                let text = format!("{a}{b}");
                                out.push(Tok {
                                    atom: Atom::Int(text.parse().unwrap_or(0)),
                                    file: "<scratch space>".into(),
                                    line: 1,
                                    col: 1,
                                    text,
                                    painted: false,
                                });
                                i += 6;
                                continue;
                            }
                            _ => return Err(Stop::Unmodelled("## operands outside the subset".into())),
                        };
                        if self.defined(&pasted) {
                            return Err(Stop::Unmodelled("pasted token is a macro name".into()));
                        }
                        out.push(Tok {
                            atom: Atom::Id(pasted),
                            file: "<scratch space>".into(),
                            line: 1,
                            col: 1,
                            text: String::new(),
                            painted: false,
                        });
                        i += 6;
                        continue;
                    }
                }
            }
            out.push(t.clone());
            i += 1;
        }
        Ok(())
    }

    fn eval_condition(&self, rest: &[Tok]) -> Result<Option<bool>, Stop> {
        // [!] defined(X) | [!] defined X | INT | NAME
        if let Some(Tok {
            atom: Atom::Punct('!'),
            ..
        }) = rest.first()
        {
            return match rest.get(1).map(|t| &t.atom) {
                Some(Atom::Id(d)) if d == "defined" => {
                    Ok(self.eval_condition(&rest[1..])?.map(|v| !v))
                }
                _ => Err(Stop::Unmodelled("#if condition outside the subset".into())),
            };
        }
        let atoms: Vec<&Atom> = rest.iter().map(|t| &t.atom).collect();
        let id = |a: &Atom| match a {
            Atom::Id(s) => Some(s.clone()),
            _ => None,
        };
        match atoms.as_slice() {
            [Atom::Int(n)] => Ok(Some(*n != 0)),
            [Atom::Id(d), Atom::Punct('('), x, Atom::Punct(')')] if d == "defined" => {
                let x = id(x).ok_or_else(|| Stop::Unmodelled("defined(non-id)".into()))?;
                Ok(Some(self.defined(&x)))
            }
            [Atom::Id(d), x] if d == "defined" => {
                let x = id(x).ok_or_else(|| Stop::Unmodelled("defined non-id".into()))?;
                Ok(Some(self.defined(&x)))
            }
            [Atom::Id(name)] if name != "defined" => {
                let mut out = Vec::new();
                self.expand(rest, &mut Vec::new(), &mut out)?;
                if out.iter().any(|t| matches!(&t.atom, Atom::Id(d) if d == "defined")) {
                    // C: "if the token defined is generated as a result of this replacement
                    // process, the behavior is undefined"
                    return Err(Stop::Unmodelled("defined produced by macro replacement".into()));
                }
                // strip balanced outer parentheses: ( ( 8 ) ) is 8
                let mut inner: &[Tok] = &out;
                while inner.len() >= 3
                    && inner[0].atom == Atom::Punct('(')
                    && inner[inner.len() - 1].atom == Atom::Punct(')')
                    && !inner[1..inner.len() - 1]
                        .iter()
                        .any(|t| matches!(t.atom, Atom::Punct('(') | Atom::Punct(')')))
                {
                    inner = &inner[1..inner.len() - 1];
                }
                match inner {
                    [] => Ok(None),
                    [t] => match &t.atom {
                        Atom::Int(n) => Ok(Some(*n != 0)),
                        Atom::Id(_) => Ok(Some(false)),
                        Atom::Punct(_) => Ok(None),
                    },
                    // two operands without an operator between them can not be a condition
                    [a, b] if !matches!(a.atom, Atom::Punct(_)) && !matches!(b.atom, Atom::Punct(_)) => Ok(None),
                    _ => Err(Stop::Unmodelled("#if condition expands to an expression".into())),
                }
            }
            _ => Err(Stop::Unmodelled("#if condition outside the subset".into())),
        }
    }

    fn load(&mut self, string: &str, parent: &str) -> Result<(String, String), ()> {
        // mirrors SimFs::do_load for the selectors C12/C14 use (include string, file, all)
        let resolved = self.fs.resolve(string, parent);
        let Some(canonical) = resolved else {
            return Err(());
        };
        for f in self.faults {
            let applies = match &f.sel {
                Sel::IncludeString(s) => s == string,
                Sel::File(n) => n == &canonical,
                Sel::All => true,
                Sel::LoadIndex(_) => false,
            };
            if applies && matches!(f.kind, FaultKind::NotFound | FaultKind::NotText) {
                return Err(());
            }
        }
        let mut file_faults: Vec<Fault> = Vec::new();
        for f in self.faults {
            match &f.sel {
                Sel::File(_) | Sel::All => file_faults.push(f.clone()),
                Sel::IncludeString(s) if s == string => {
                    let mut g = f.clone();
                    g.sel = Sel::File(canonical.clone());
                    file_faults.push(g);
                }
                _ => {}
            }
        }
        let mut fired = Vec::new();
        match apply_content_faults(&canonical, &self.fs.files[&canonical], 0, &file_faults, &mut fired) {
            Ok(c) => Ok((canonical, c)),
            Err(_) => Err(()),
        }
    }

    fn run_file(&mut self, real: &str, contents: &str, depth: u32) -> Result<(), Stop> {
        self.max_depth = self.max_depth.max(depth);
        if !self.pasted.iter().any(|p| p == real) {
            self.pasted.push(real.to_string());
        }
        if contents.starts_with('\u{feff}') {
            return Err(Stop::Unmodelled("byte order mark".into()));
        }
        let (masked, unterminated, joined) = mask_comments(contents);
        if !masked.is_ascii() {
            return Err(Stop::Unmodelled("non-ASCII character outside a comment".into()));
        }
        let eof_line = contents.matches('\n').count() as u32 + 1;
        let mut text = masked.as_str();
        let mut line_no = 0u32;
        // split on '\n'; a trailing fragment without newline is a line too
        while !text.is_empty() {
            line_no += 1;
            let (line, rest, terminated) = match text.find('\n') {
                Some(i) => (&text[..i], &text[i + 1..], true),
                None => (text, "", false),
            };
            text = rest;
            if unterminated == Some(line_no) || line.contains('\0') {
                self.flush_segment()?;
            }
            if unterminated == Some(line_no) {
                // the lexer meets a comment that never ends: reported at the end-of-file position
                // (text in front of the comment on the same line is outside the subset)
                if !line.trim().is_empty() {
                    return Err(Stop::Unmodelled("text before an unterminated comment".into()));
                }
                return Err(Stop::Fail(Failure {
                    kind: FailKind::Lex,
                    at: Some((real.to_string(), eof_line)),
                    starts_at: Some(line_no),
                }));
            }
            if joined == Some(line_no) {
                return Err(Stop::Unmodelled(
                    "text after a comment that began on an earlier line".into(),
                ));
            }
            self.steps += 1;
            if self.steps > STEP_BUDGET {
                return Err(Stop::Unmodelled("step budget exceeded".into()));
            }
            let line = if terminated {
                line.strip_suffix('\r').unwrap_or(line)
            } else {
                line
            };
            if line.contains('\r') {
                return Err(Stop::Unmodelled("carriage return not followed by line feed".into()));
            }
            if line.contains('\0') && !line.starts_with('\0') {
                return Err(Stop::Unmodelled("NUL inside a line".into()));
            }
            if line.contains('\0') {
                // the lexer runs over inactive regions too
                return Err(Stop::Fail(Failure {
                    kind: FailKind::Lex,
                    at: Some((real.to_string(), line_no)),
                    starts_at: None,
                }));
            }
            // A splice that is the very end of the file joins the last line with nothing: the line
            // is what stands in front of the backslash (every other splice is outside the subset)
            let line = if line.ends_with('\\') && terminated && rest.is_empty() {
                &line[..line.len() - 1]
            } else {
                line
            };
            if line.ends_with('\\') {
                return Err(Stop::Unmodelled("line splice".into()));
            }
            let trimmed = line.trim_start_matches([' ', '\t']);
            let indent = (line.len() - trimmed.len()) as u32;
            if trimmed.starts_with('#') {
                self.flush_segment()?;
            }
            if let Some(after_hash) = trimmed.strip_prefix('#') {
                // the operand of #include is not made of atoms: only its name is tokenised
                let name_part = after_hash.trim_start_matches([' ', '\t']);
                let is_include = name_part
                    .strip_prefix("include")
                    .is_some_and(|r| !r.starts_with(|c: char| c.is_ascii_alphanumeric() || c == '_'));
                // `#define NAME(a,b) a##b` is the one function-like macro of the subset
                if let Some(d) = name_part.strip_prefix("define")
                    && d.starts_with([' ', '\t'])
                    && d.contains("##")
                {
                    let d = d.trim();
                    let name: String = d
                        .chars()
                        .take_while(|c| c.is_ascii_alphanumeric() || *c == '_')
                        .collect();
                    let rest: String = d[name.len()..].chars().filter(|c| !c.is_whitespace()).collect();
                    if name.is_empty() || !d[name.len()..].starts_with('(') || rest != "(a,b)a##b" {
                        return Err(Stop::Unmodelled("## outside the paste macro of the subset".into()));
                    }
                    if self.active() {
                        self.macros.retain(|m| m.name != name);
                        self.macros.push(MacroDef {
                            name,
                            body: Body::Paste,
                            file: real.to_string(),
                        });
                    }
                    continue;
                }
                let toks = if is_include {
                    lex_line("include", real, line_no, indent + 2).map_err(Stop::Unmodelled)?
                } else {
                    lex_line(after_hash, real, line_no, indent + 2).map_err(Stop::Unmodelled)?
                };
                self.directive(&toks, after_hash, real, line_no, depth)?;
            } else {
                let toks = lex_line(trimmed, real, line_no, indent + 1).map_err(Stop::Unmodelled)?;
                self.segment.extend(toks);
                self.segment.push(Tok {
                    atom: LINE_BREAK,
                    file: real.to_string(),
                    line: line_no,
                    col: 0,
                    text: String::new(),
                    painted: false,
                });
            }
        }
        self.flush_segment()
    }

    fn directive(
        &mut self,
        toks: &[Tok],
        raw: &str,
        real: &str,
        line_no: u32,
        depth: u32,
    ) -> Result<(), Stop> {
        let Some(Tok {
            atom: Atom::Id(name),
            ..
        }) = toks.first()
        else {
            return Err(Stop::Unmodelled("directive without name".into()));
        };
        let rest = &toks[1..];
        let skip = !self.active();
        let here = || Some((real.to_string(), line_no));
        match name.as_str() {
            "include" => {
                // the operand contains characters outside the atom subset: read it from raw text
                let after = raw.trim_start().strip_prefix("include").unwrap_or("").trim();
                let string = if let Some(s) = after.strip_prefix('"') {
                    s.strip_suffix('"')
                } else if let Some(s) = after.strip_prefix('<') {
                    s.strip_suffix('>')
                } else {
                    None
                };
                let Some(string) = string else {
                    return Err(Stop::Unmodelled("#include operand outside the subset".into()));
                };
                if string.contains(['"', '<', '>', '\\']) {
                    return Err(Stop::Unmodelled("#include operand outside the subset".into()));
                }
                if skip {
                    return Ok(());
                }
                match self.load(string, real) {
                    Err(()) => {
                        self.walk.push(IncludeStep {
                            string: string.to_string(),
                            parent: real.to_string(),
                            resolved: None,
                        });
                        Err(Stop::Fail(Failure {
                            kind: FailKind::Load(string.to_string()),
                            at: here(),
                            starts_at: None,
                        }))
                    }
                    Ok((canonical, contents)) => {
                        self.walk.push(IncludeStep {
                            string: string.to_string(),
                            parent: real.to_string(),
                            resolved: Some(canonical.clone()),
                        });
                        if self.once.contains(&canonical) {
                            self.once_skips += 1;
                            return Ok(());
                        }
                        if depth + 1 > DEPTH_LIMIT {
                            return Err(Stop::Fail(Failure {
                                kind: FailKind::Depth,
                                at: None,
                                starts_at: None,
                            }));
                        }
                        self.run_file(&canonical, &contents, depth + 1)
                    }
                }
            }
            "ifdef" | "ifndef" => {
                if skip {
                    self.chain.push(Gate::DisabledInner);
                    return Ok(());
                }
                let [Tok {
                    atom: Atom::Id(x), ..
                }] = rest
                else {
                    return Err(Stop::Unmodelled("#ifdef operand outside the subset".into()));
                };
                let d = self.defined(x);
                let on = if name == "ifdef" { d } else { !d };
                self.chain.push(if on { Gate::Enabled } else { Gate::DisabledInner });
                Ok(())
            }
            "if" => {
                if skip {
                    self.chain.push(Gate::DisabledInner);
                    return Ok(());
                }
                let cond = rest;
                match self.eval_condition(cond)? {
                    Some(v) => {
                        self.chain.push(if v { Gate::Enabled } else { Gate::DisabledInner });
                        Ok(())
                    }
                    None => Err(Stop::Fail(Failure {
                        kind: FailKind::Condition,
                        at: here(),
                        starts_at: None,
                    })),
                }
            }
            "elif" => {
                // only conditions that cannot fail are in the subset (see DESIGN 4 C12)
                let v = match rest.iter().map(|t| &t.atom).collect::<Vec<_>>().as_slice() {
                    [Atom::Int(n)] => *n != 0,
                    [Atom::Id(d), Atom::Punct('('), Atom::Id(x), Atom::Punct(')')] if d == "defined" => {
                        self.defined(x)
                    }
                    _ => return Err(Stop::Unmodelled("#elif condition outside the subset".into())),
                };
                match self.chain.pop() {
                    None => Err(Stop::Fail(Failure {
                        kind: FailKind::Chain,
                        at: None,
                        starts_at: None,
                    })),
                    Some(Gate::ElseEnabled | Gate::ElseDisabled) => {
                        Err(Stop::Unmodelled("#elif after #else".into()))
                    }
                    Some(g) => {
                        self.chain.push(match g {
                            Gate::Enabled => Gate::DisabledOuter,
                            Gate::DisabledInner if v => Gate::Enabled,
                            g => g,
                        });
                        Ok(())
                    }
                }
            }
            "else" => {
                if !rest.is_empty() {
                    return Err(Stop::Unmodelled("#else with operands".into()));
                }
                match self.chain.pop() {
                    None => Err(Stop::Fail(Failure {
                        kind: FailKind::Chain,
                        at: None,
                        starts_at: None,
                    })),
                    Some(Gate::ElseEnabled | Gate::ElseDisabled) => {
                        Err(Stop::Unmodelled("#else after #else".into()))
                    }
                    Some(g) => {
                        self.chain.push(match g {
                            Gate::DisabledInner => Gate::ElseEnabled,
                            _ => Gate::ElseDisabled,
                        });
                        Ok(())
                    }
                }
            }
            "endif" => {
                if !rest.is_empty() {
                    return Err(Stop::Unmodelled("#endif with operands".into()));
                }
                match self.chain.pop() {
                    None => Err(Stop::Fail(Failure {
                        kind: FailKind::Chain,
                        at: None,
                        starts_at: None,
                    })),
                    Some(_) => Ok(()),
                }
            }
            "define" => {
                if skip {
                    return Ok(());
                }
                let Some(Tok {
                    atom: Atom::Id(mname),
                    col,
                    ..
                }) = rest.first()
                else {
                    return Err(Stop::Unmodelled("#define without name".into()));
                };
                // function-like iff '(' directly follows the name
                let next = rest.get(1);
                let is_function = matches!(next, Some(Tok { atom: Atom::Punct('('), col: c2, .. }) if *c2 == *col + mname.len() as u32);
                let body = if is_function {
                    let compact: String = raw.chars().filter(|c| !c.is_whitespace()).collect();
                    if compact == format!("define{mname}(a,b)a##b") {
                        Body::Paste
                    } else {
                        // NAME ( p1 , p2 ... ) body
                        let mut params: Vec<String> = Vec::new();
                        let mut k = 2;
                        let mut ok = false;
                        if matches!(rest.get(k), Some(Tok { atom: Atom::Punct(')'), .. })) {
                            ok = true;
                            k += 1;
                        } else {
                            while let Some(Tok {
                                atom: Atom::Id(p), ..
                            }) = rest.get(k)
                            {
                                params.push(p.clone());
                                match rest.get(k + 1).map(|t| &t.atom) {
                                    Some(Atom::Punct(',')) => k += 2,
                                    Some(Atom::Punct(')')) => {
                                        ok = true;
                                        k += 2;
                                        break;
                                    }
                                    _ => break,
                                }
                            }
                        }
                        if !ok {
                            return Err(Stop::Unmodelled("macro parameter list outside the subset".into()));
                        }
                        Body::Function {
                            params,
                            body: rest[k..].to_vec(),
                        }
                    }
                } else {
                    if raw.contains("##") {
                        return Err(Stop::Unmodelled("## in object-like macro".into()));
                    }
                    Body::Object(rest[1..].to_vec())
                };
                if let Some(old) = self.macros.iter().find(|m| &m.name == mname)
                    && old.file != real
                {
                    self.cross_file_redefs += 1;
                }
                self.macros.retain(|m| &m.name != mname);
                self.macros.push(MacroDef {
                    name: mname.clone(),
                    body,
                    file: real.to_string(),
                });
                Ok(())
            }
            "undef" => {
                if skip {
                    return Ok(());
                }
                let [Tok {
                    atom: Atom::Id(x), ..
                }] = rest
                else {
                    return Err(Stop::Unmodelled("#undef operand outside the subset".into()));
                };
                if let Some(old) = self.macros.iter().find(|m| &m.name == x)
                    && old.file != real
                {
                    self.cross_file_redefs += 1;
                }
                self.macros.retain(|m| &m.name != x);
                Ok(())
            }
            "pragma" => {
                if skip {
                    return Ok(());
                }
                match rest {
                    [Tok {
                        atom: Atom::Id(x), ..
                    }] if x == "once" => {
                        self.once.insert(real.to_string());
                        Ok(())
                    }
                    _ => Err(Stop::Unmodelled("#pragma outside the subset".into())),
                }
            }
            _ => Err(Stop::Unmodelled(format!("directive #{name}"))),
        }
    }
}

/// Run the model: textual inclusion of `entry` on the simulated file system under `faults`,
/// with API-level defines placed before the first line.
pub fn run(fs: &FsSpec, faults: &[Fault], entry: &str, defines: &[(String, String)]) -> ModelRun {
    let mut st = State {
        fs,
        faults,
        macros: Vec::new(),
        chain: Vec::new(),
        once: BTreeSet::new(),
        out: Vec::new(),
        segment: Vec::new(),
        walk: Vec::new(),
        pasted: Vec::new(),
        steps: 0,
        once_skips: 0,
        cross_file_redefs: 0,
        max_depth: 0,
        self_references: std::cell::Cell::new(0),
    };
    let finish = |st: State, verdict: Verdict| ModelRun {
        verdict,
        walk: st.walk,
        pasted: st.pasted,
        once_skips: st.once_skips,
        cross_file_redefs: st.cross_file_redefs,
        max_depth: st.max_depth,
        self_references: st.self_references.get(),
    };
    for (name, value) in defines {
        match lex_line(value, "<command line>", 1, 1) {
            Ok(body) => {
                // "behave exactly like #define lines placed before the first line": a later
                // define of the same name replaces the earlier one
                st.macros.retain(|m| &m.name != name);
                st.macros.push(MacroDef {
                    name: name.clone(),
                    body: Body::Object(body),
                    file: "<command line>".into(),
                });
            }
            Err(e) => return finish(st, Verdict::Unmodelled(e)),
        }
    }
    let loaded = st.load(entry, "");
    let (canonical, contents) = match loaded {
        Ok(x) => x,
        Err(()) => {
            return finish(
                st,
                Verdict::Fail(Failure {
                    kind: FailKind::Load(entry.to_string()),
                    at: None,
                    starts_at: None,
                }),
            );
        }
    };
    let r = st.run_file(&canonical, &contents, 0);
    let verdict = match r {
        Err(Stop::Fail(f)) => Verdict::Fail(f),
        Err(Stop::Unmodelled(s)) => Verdict::Unmodelled(s),
        Ok(()) => {
            if st.chain.is_empty() {
                Verdict::Ok(std::mem::take(&mut st.out))
            } else {
                Verdict::Fail(Failure {
                    kind: FailKind::Chain,
                    at: None,
                    starts_at: None,
                })
            }
        }
    };
    finish(st, verdict)
}

/// Verdict of `static const int NAME = expr ;` programs (compile form of W3): Ok iff every
/// statement has that shape, every name is new and every operand is an int or an earlier name.
/// Returns Err(index of the first offending token) otherwise, None if the stream is not made of
/// such statements at all.
pub fn compile_form_verdict(toks: &[Tok]) -> Option<Result<(), usize>> {
    let mut known: BTreeSet<&str> = BTreeSet::new();
    let mut i = 0;
    let id = |t: Option<&Tok>, s: &str| matches!(t, Some(Tok{atom: Atom::Id(x), ..}) if x == s);
    while i < toks.len() {
        if !(id(toks.get(i), "static") && id(toks.get(i + 1), "const") && id(toks.get(i + 2), "int")) {
            return None;
        }
        let name = match toks.get(i + 3) {
            Some(Tok {
                atom: Atom::Id(n), ..
            }) => n.as_str(),
            _ => return None,
        };
        if toks.get(i + 4).map(|t| &t.atom) != Some(&Atom::Punct('=')) {
            return None;
        }
        if known.contains(name) {
            return Some(Err(i + 3));
        }
        // expr := ('+')* atom ( '+' ('+')* atom )* : unary plus is part of the language
        let mut j = i + 5;
        let mut last_was_atom = false;
        let mut atoms = 0;
        loop {
            match toks.get(j).map(|t| &t.atom) {
                None => return Some(Err(j.saturating_sub(1))),
                Some(Atom::Punct(';')) => {
                    if !last_was_atom || atoms == 0 {
                        return Some(Err(j));
                    }
                    break;
                }
                Some(Atom::Punct('+')) => last_was_atom = false,
                Some(Atom::Int(_)) if !last_was_atom => {
                    last_was_atom = true;
                    atoms += 1;
                }
                Some(Atom::Id(x)) if !last_was_atom => {
                    if !known.contains(x.as_str()) {
                        return Some(Err(j));
                    }
                    last_was_atom = true;
                    atoms += 1;
                }
                Some(_) => return Some(Err(j)),
            }
            j += 1;
        }
        known.insert(name);
        i = j + 1;
    }
    Some(Ok(()))
}
