//! Minimal JSON value, writer and parser (no third-party crates in the simulator).

use std::collections::BTreeMap;

#[derive(Clone, Debug, PartialEq)]
pub enum Json {
    Null,
    Bool(bool),
    Int(i128),
    Float(f64),
    Str(String),
    Arr(Vec<Json>),
    Obj(BTreeMap<String, Json>),
}

impl Json {
    pub fn obj() -> Json {
        Json::Obj(BTreeMap::new())
    }

    pub fn set(&mut self, key: &str, value: Json) -> &mut Json {
        if let Json::Obj(m) = self {
            m.insert(key.to_string(), value);
        } else {
            panic!("Json::set on non-object");
        }
        self
    }

    pub fn with(mut self, key: &str, value: Json) -> Json {
        self.set(key, value);
        self
    }

    pub fn get(&self, key: &str) -> Option<&Json> {
        match self {
            Json::Obj(m) => m.get(key),
            _ => None,
        }
    }

    pub fn get_mut(&mut self, key: &str) -> Option<&mut Json> {
        match self {
            Json::Obj(m) => m.get_mut(key),
            _ => None,
        }
    }

    pub fn str(&self) -> Option<&str> {
        match self {
            Json::Str(s) => Some(s),
            _ => None,
        }
    }

    pub fn int(&self) -> Option<i128> {
        match self {
            Json::Int(i) => Some(*i),
            Json::Float(f) => Some(*f as i128),
            _ => None,
        }
    }

    pub fn u64(&self) -> Option<u64> {
        self.int().map(|i| i as u64)
    }

    pub fn bool(&self) -> Option<bool> {
        match self {
            Json::Bool(b) => Some(*b),
            _ => None,
        }
    }

    pub fn arr(&self) -> Option<&Vec<Json>> {
        match self {
            Json::Arr(a) => Some(a),
            _ => None,
        }
    }

    pub fn as_obj(&self) -> Option<&BTreeMap<String, Json>> {
        match self {
            Json::Obj(m) => Some(m),
            _ => None,
        }
    }

    pub fn gs(&self, key: &str) -> String {
        self.get(key).and_then(|j| j.str()).unwrap_or("").to_string()
    }

    pub fn gu(&self, key: &str) -> u64 {
        self.get(key).and_then(|j| j.u64()).unwrap_or(0)
    }

    pub fn gb(&self, key: &str) -> bool {
        self.get(key).and_then(|j| j.bool()).unwrap_or(false)
    }

    pub fn ga(&self, key: &str) -> &[Json] {
        match self.get(key) {
            Some(Json::Arr(a)) => a,
            _ => &[],
        }
    }

    pub fn s(v: &str) -> Json {
        Json::Str(v.to_string())
    }

    pub fn u(v: u64) -> Json {
        Json::Int(v as i128)
    }

    pub fn strs<I: IntoIterator<Item = S>, S: AsRef<str>>(it: I) -> Json {
        Json::Arr(it.into_iter().map(|s| Json::s(s.as_ref())).collect())
    }

    /// Compact single-line rendering
    pub fn dump(&self) -> String {
        let mut out = String::new();
        self.write(&mut out, None, 0);
        out
    }

    /// Indented rendering
    pub fn pretty(&self) -> String {
        let mut out = String::new();
        self.write(&mut out, Some(1), 0);
        out.push('\n');
        out
    }

    fn write(&self, out: &mut String, indent: Option<usize>, level: usize) {
        let nl = |out: &mut String, level: usize| {
            if let Some(n) = indent {
                out.push('\n');
                for _ in 0..(n * level) {
                    out.push(' ');
                }
            }
        };
        match self {
            Json::Null => out.push_str("null"),
            Json::Bool(b) => out.push_str(if *b { "true" } else { "false" }),
            Json::Int(i) => out.push_str(&i.to_string()),
            Json::Float(f) => {
                if f.is_finite() {
                    let s = format!("{}", f);
                    out.push_str(&s);
                    if !s.contains('.') && !s.contains('e') && !s.contains('E') {
                        out.push_str(".0");
                    }
                } else {
                    out.push_str("null");
                }
            }
            Json::Str(s) => write_str(out, s),
            Json::Arr(a) => {
                out.push('[');
                for (i, v) in a.iter().enumerate() {
                    if i > 0 {
                        out.push(',');
                    }
                    nl(out, level + 1);
                    v.write(out, indent, level + 1);
                }
                if !a.is_empty() {
                    nl(out, level);
                }
                out.push(']');
            }
            Json::Obj(m) => {
                out.push('{');
                for (i, (k, v)) in m.iter().enumerate() {
                    if i > 0 {
                        out.push(',');
                    }
                    nl(out, level + 1);
                    write_str(out, k);
                    out.push(':');
                    if indent.is_some() {
                        out.push(' ');
                    }
                    v.write(out, indent, level + 1);
                }
                if !m.is_empty() {
                    nl(out, level);
                }
                out.push('}');
            }
        }
    }

    pub fn parse(text: &str) -> Result<Json, String> {
        let mut p = Parser {
            b: text.as_bytes(),
            i: 0,
        };
        p.ws();
        let v = p.value()?;
        p.ws();
        if p.i != p.b.len() {
            return Err(format!("trailing data at {}", p.i));
        }
        Ok(v)
    }
}

fn write_str(out: &mut String, s: &str) {
    out.push('"');
    for c in s.chars() {
        match c {
            '"' => out.push_str("\\\""),
            '\\' => out.push_str("\\\\"),
            '\n' => out.push_str("\\n"),
            '\r' => out.push_str("\\r"),
            '\t' => out.push_str("\\t"),
            c if (c as u32) < 0x20 || c == '\u{7f}' => {
                out.push_str(&format!("\\u{:04x}", c as u32));
            }
            c => out.push(c),
        }
    }
    out.push('"');
}

struct Parser<'a> {
    b: &'a [u8],
    i: usize,
}

impl Parser<'_> {
    fn ws(&mut self) {
        while self.i < self.b.len() && matches!(self.b[self.i], b' ' | b'\n' | b'\r' | b'\t') {
            self.i += 1;
        }
    }

    fn value(&mut self) -> Result<Json, String> {
        if self.i >= self.b.len() {
            return Err("unexpected end".into());
        }
        match self.b[self.i] {
            b'{' => {
                self.i += 1;
                let mut m = BTreeMap::new();
                self.ws();
                if self.peek() == Some(b'}') {
                    self.i += 1;
                    return Ok(Json::Obj(m));
                }
                loop {
                    self.ws();
                    let k = self.string()?;
                    self.ws();
                    self.expect(b':')?;
                    self.ws();
                    let v = self.value()?;
                    m.insert(k, v);
                    self.ws();
                    match self.peek() {
                        Some(b',') => self.i += 1,
                        Some(b'}') => {
                            self.i += 1;
                            return Ok(Json::Obj(m));
                        }
                        _ => return Err(format!("expected , or }} at {}", self.i)),
                    }
                }
            }
            b'[' => {
                self.i += 1;
                let mut a = Vec::new();
                self.ws();
                if self.peek() == Some(b']') {
                    self.i += 1;
                    return Ok(Json::Arr(a));
                }
                loop {
                    self.ws();
                    a.push(self.value()?);
                    self.ws();
                    match self.peek() {
                        Some(b',') => self.i += 1,
                        Some(b']') => {
                            self.i += 1;
                            return Ok(Json::Arr(a));
                        }
                        _ => return Err(format!("expected , or ] at {}", self.i)),
                    }
                }
            }
            b'"' => Ok(Json::Str(self.string()?)),
            b't' => self.lit("true", Json::Bool(true)),
            b'f' => self.lit("false", Json::Bool(false)),
            b'n' => self.lit("null", Json::Null),
            _ => self.number(),
        }
    }

    fn peek(&self) -> Option<u8> {
        self.b.get(self.i).copied()
    }

    fn expect(&mut self, c: u8) -> Result<(), String> {
        if self.peek() == Some(c) {
            self.i += 1;
            Ok(())
        } else {
            Err(format!("expected {} at {}", c as char, self.i))
        }
    }

    fn lit(&mut self, word: &str, v: Json) -> Result<Json, String> {
        if self.b[self.i..].starts_with(word.as_bytes()) {
            self.i += word.len();
            Ok(v)
        } else {
            Err(format!("bad literal at {}", self.i))
        }
    }

    fn number(&mut self) -> Result<Json, String> {
        let start = self.i;
        let mut float = false;
        while self.i < self.b.len() {
            match self.b[self.i] {
                b'0'..=b'9' | b'-' | b'+' => self.i += 1,
                b'.' | b'e' | b'E' => {
                    float = true;
                    self.i += 1
                }
                _ => break,
            }
        }
        let s = std::str::from_utf8(&self.b[start..self.i]).map_err(|e| e.to_string())?;
        if float {
            s.parse::<f64>().map(Json::Float).map_err(|e| e.to_string())
        } else {
            s.parse::<i128>().map(Json::Int).map_err(|e| format!("{e} at {start}"))
        }
    }

    fn string(&mut self) -> Result<String, String> {
        self.expect(b'"')?;
        let mut out: Vec<u8> = Vec::new();
        loop {
            if self.i >= self.b.len() {
                return Err("unterminated string".into());
            }
            let c = self.b[self.i];
            self.i += 1;
            match c {
                b'"' => break,
                b'\\' => {
                    let e = *self.b.get(self.i).ok_or("bad escape")?;
                    self.i += 1;
                    match e {
                        b'"' => out.push(b'"'),
                        b'\\' => out.push(b'\\'),
                        b'/' => out.push(b'/'),
                        b'n' => out.push(b'\n'),
                        b'r' => out.push(b'\r'),
                        b't' => out.push(b'\t'),
                        b'b' => out.push(8),
                        b'f' => out.push(12),
                        b'u' => {
                            let mut cp = self.hex4()?;
                            if (0xD800..0xDC00).contains(&cp) && self.b[self.i..].starts_with(b"\\u") {
                                self.i += 2;
                                let lo = self.hex4()?;
                                cp = 0x10000 + ((cp - 0xD800) << 10) + (lo - 0xDC00);
                            }
                            let ch = char::from_u32(cp).unwrap_or('\u{fffd}');
                            let mut buf = [0u8; 4];
                            out.extend_from_slice(ch.encode_utf8(&mut buf).as_bytes());
                        }
                        _ => return Err("bad escape".into()),
                    }
                }
                c => out.push(c),
            }
        }
        String::from_utf8(out).map_err(|e| e.to_string())
    }

    fn hex4(&mut self) -> Result<u32, String> {
        if self.i + 4 > self.b.len() {
            return Err("bad \\u".into());
        }
        let s = std::str::from_utf8(&self.b[self.i..self.i + 4]).map_err(|e| e.to_string())?;
        self.i += 4;
        u32::from_str_radix(s, 16).map_err(|e| e.to_string())
    }
}
