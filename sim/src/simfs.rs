//! Seam S2 - the simulated file system behind `rssl::text::IncludeHandler`, with fault injection.

use crate::json::Json;
use rssl::text::{FileData, IncludeError, IncludeHandler};
use std::collections::BTreeMap;

/// How include strings are resolved to files of the tree
#[derive(Clone, Debug, PartialEq)]
pub enum Policy {
    /// Exact string match against the file keys (what the repository's array handler does)
    Flat,
    /// Relative to the directory of the parent first, then relative to the root
    /// (what tests/external.rs does), with `.` / `..` / `//` normalisation
    ParentRelative,
    /// ParentRelative, then each search directory in turn
    SearchPath(Vec<String>),
}

#[derive(Clone, Debug, PartialEq)]
pub struct FsSpec {
    pub policy: Policy,
    pub files: BTreeMap<String, String>,
}

/// Which request / file a fault applies to
#[derive(Clone, Debug, PartialEq)]
pub enum Sel {
    /// The k-th request the handler receives (0 = entry file)
    LoadIndex(u64),
    /// Every request whose include string is this
    IncludeString(String),
    /// Every physical read of this canonical file
    File(String),
    /// Every file
    All,
}

#[derive(Clone, Debug, PartialEq)]
pub enum FaultKind {
    /// E1: Err(FileNotFound) for a file that exists
    NotFound,
    /// E2: Err(FileNotText)
    NotText,
    /// E3: contents cut at byte offset `a` (moved down to a char boundary)
    ShortRead,
    /// E4: bit `b` of byte `a` flipped; degrades to NotText if the result is not UTF-8
    FlipBit,
    /// E5: lines a..b (0-based, half open) missing
    LoseLines,
    /// E5: lines a..b present twice
    DupLines,
    /// E6: empty contents
    Empty,
    /// E7: every "\n" becomes "\r\n"
    Crlf,
    /// E7: U+FEFF in front
    Bom,
    /// E7: NUL byte inserted at byte offset `a`
    Nul,
    /// `text` inserted in front of line `a` (0-based); used by the C14 k-line shift
    InsertLines,
    /// `text` appended to the file; used by the C14 bystander growth
    Append,
    /// E11: the handler reports `text` as real_name
    RealName,
    /// E10: the second and later physical reads return `text` instead
    Stale,
    /// E7 (reformatting tool): whitespace, comments and backslash-newline splices inserted at
    /// token boundaries inside text lines, chosen by the seed `a`
    Trivia,
    /// E7: every "\n" becomes a lone "\r" (classic Mac line ends)
    Cr,
    /// E7: a control character (form feed, vertical tab, Ctrl-Z, DEL, ESC; chosen by `b`) inserted at
    /// byte offset `a`
    Control,
    /// E7 (editor / generator artefact): every text line gets a trailing line comment that makes it
    /// longer than 240 bytes, with multi-byte characters at varying offsets
    LongLines,
}

#[derive(Clone, Debug, PartialEq)]
pub struct Fault {
    pub kind: FaultKind,
    pub sel: Sel,
    pub a: u64,
    pub b: u64,
    pub text: String,
}

impl Fault {
    pub fn new(kind: FaultKind, sel: Sel) -> Fault {
        Fault {
            kind,
            sel,
            a: 0,
            b: 0,
            text: String::new(),
        }
    }
    pub fn ab(mut self, a: u64, b: u64) -> Fault {
        self.a = a;
        self.b = b;
        self
    }
    pub fn text(mut self, t: &str) -> Fault {
        self.text = t.to_string();
        self
    }
    pub fn kind_name(&self) -> &'static str {
        kind_name(&self.kind)
    }
}

pub fn kind_name(k: &FaultKind) -> &'static str {
    match k {
        FaultKind::NotFound => "not_found",
        FaultKind::NotText => "not_text",
        FaultKind::ShortRead => "short_read",
        FaultKind::FlipBit => "flip_bit",
        FaultKind::LoseLines => "lose_lines",
        FaultKind::DupLines => "dup_lines",
        FaultKind::Empty => "empty",
        FaultKind::Crlf => "crlf",
        FaultKind::Bom => "bom",
        FaultKind::Nul => "nul",
        FaultKind::InsertLines => "insert_lines",
        FaultKind::Append => "append",
        FaultKind::RealName => "real_name",
        FaultKind::Stale => "stale",
        FaultKind::Trivia => "trivia",
        FaultKind::LongLines => "long_lines",
        FaultKind::Cr => "cr",
        FaultKind::Control => "control",
    }
}

pub const ALL_KINDS: &[&str] = &[
    "not_found",
    "not_text",
    "short_read",
    "flip_bit",
    "lose_lines",
    "dup_lines",
    "empty",
    "crlf",
    "bom",
    "nul",
    "insert_lines",
    "append",
    "real_name",
    "stale",
    "trivia",
    "long_lines",
    "cr",
    "control",
];

fn kind_from_name(s: &str) -> Option<FaultKind> {
    Some(match s {
        "not_found" => FaultKind::NotFound,
        "not_text" => FaultKind::NotText,
        "short_read" => FaultKind::ShortRead,
        "flip_bit" => FaultKind::FlipBit,
        "lose_lines" => FaultKind::LoseLines,
        "dup_lines" => FaultKind::DupLines,
        "empty" => FaultKind::Empty,
        "crlf" => FaultKind::Crlf,
        "bom" => FaultKind::Bom,
        "nul" => FaultKind::Nul,
        "insert_lines" => FaultKind::InsertLines,
        "append" => FaultKind::Append,
        "real_name" => FaultKind::RealName,
        "stale" => FaultKind::Stale,
        "trivia" => FaultKind::Trivia,
        "long_lines" => FaultKind::LongLines,
        "cr" => FaultKind::Cr,
        "control" => FaultKind::Control,
        _ => return None,
    })
}

/// Normalise a slash separated path; None if it climbs above the root
pub fn normalise(path: &str) -> Option<String> {
    let mut parts: Vec<&str> = Vec::new();
    for p in path.split('/') {
        match p {
            "" | "." => {}
            ".." => {
                parts.pop()?;
            }
            p => parts.push(p),
        }
    }
    Some(parts.join("/"))
}

pub fn dir_of(path: &str) -> &str {
    match path.rfind('/') {
        Some(i) => &path[..i],
        None => "",
    }
}

impl FsSpec {
    pub fn new(policy: Policy) -> FsSpec {
        FsSpec {
            policy,
            files: BTreeMap::new(),
        }
    }

    /// Resolve an include string seen in `parent` (canonical name, "" for the entry request)
    /// to the canonical name of a file of the tree
    pub fn resolve(&self, file_name: &str, parent: &str) -> Option<String> {
        match &self.policy {
            Policy::Flat => {
                if self.files.contains_key(file_name) {
                    Some(file_name.to_string())
                } else {
                    None
                }
            }
            Policy::ParentRelative => self.resolve_relative(file_name, parent, &[]),
            Policy::SearchPath(dirs) => self.resolve_relative(file_name, parent, dirs),
        }
    }

    fn resolve_relative(&self, file_name: &str, parent: &str, dirs: &[String]) -> Option<String> {
        let pdir = dir_of(parent);
        let rel = if pdir.is_empty() {
            file_name.to_string()
        } else {
            format!("{pdir}/{file_name}")
        };
        if let Some(n) = normalise(&rel)
            && self.files.contains_key(&n)
        {
            return Some(n);
        }
        if let Some(n) = normalise(file_name)
            && self.files.contains_key(&n)
        {
            return Some(n);
        }
        for d in dirs {
            if let Some(n) = normalise(&format!("{d}/{file_name}"))
                && self.files.contains_key(&n)
            {
                return Some(n);
            }
        }
        None
    }

    pub fn to_json(&self) -> Json {
        let mut files = Json::obj();
        for (k, v) in &self.files {
            files.set(k, Json::s(v));
        }
        let policy = match &self.policy {
            Policy::Flat => Json::s("flat"),
            Policy::ParentRelative => Json::s("parent_relative"),
            Policy::SearchPath(d) => Json::obj().with("search_path", Json::strs(d)),
        };
        Json::obj().with("policy", policy).with("files", files)
    }

    pub fn from_json(j: &Json) -> Result<FsSpec, String> {
        let policy = match j.get("policy") {
            Some(Json::Str(s)) if s == "flat" => Policy::Flat,
            Some(Json::Str(s)) if s == "parent_relative" => Policy::ParentRelative,
            Some(o @ Json::Obj(_)) => Policy::SearchPath(
                o.ga("search_path")
                    .iter()
                    .map(|s| s.str().unwrap_or("").to_string())
                    .collect(),
            ),
            _ => return Err("bad policy".into()),
        };
        let mut files = BTreeMap::new();
        if let Some(m) = j.get("files").and_then(|f| f.as_obj()) {
            for (k, v) in m {
                files.insert(k.clone(), v.str().ok_or("file content not a string")?.to_string());
            }
        }
        Ok(FsSpec { policy, files })
    }
}

impl Fault {
    pub fn to_json(&self) -> Json {
        let mut j = Json::obj().with("kind", Json::s(self.kind_name()));
        match &self.sel {
            Sel::LoadIndex(k) => j.set("load_index", Json::u(*k)),
            Sel::IncludeString(s) => j.set("include_string", Json::s(s)),
            Sel::File(s) => j.set("file", Json::s(s)),
            Sel::All => j.set("all", Json::Bool(true)),
        };
        if self.a != 0 || self.b != 0 {
            j.set("a", Json::u(self.a));
            j.set("b", Json::u(self.b));
        }
        if !self.text.is_empty() {
            j.set("text", Json::s(&self.text));
        }
        j
    }

    pub fn from_json(j: &Json) -> Result<Fault, String> {
        let kind = kind_from_name(&j.gs("kind")).ok_or("bad fault kind")?;
        let sel = if let Some(k) = j.get("load_index") {
            Sel::LoadIndex(k.u64().unwrap_or(0))
        } else if let Some(s) = j.get("include_string") {
            Sel::IncludeString(s.str().unwrap_or("").to_string())
        } else if let Some(s) = j.get("file") {
            Sel::File(s.str().unwrap_or("").to_string())
        } else {
            Sel::All
        };
        Ok(Fault {
            kind,
            sel,
            a: j.gu("a"),
            b: j.gu("b"),
            text: j.gs("text"),
        })
    }
}

/// One request as the handler saw it
#[derive(Clone, Debug)]
pub struct LoadEvent {
    pub index: u64,
    pub file_name: String,
    pub parent_name: String,
    /// canonical file the request resolved to (before faults)
    pub resolved: Option<String>,
    /// "data" | "not_found" | "not_text"
    pub response: &'static str,
    pub real_name: String,
    pub bytes: usize,
    pub digest: u64,
    /// fault kinds that changed this response
    pub fired: Vec<&'static str>,
}

/// Apply content-changing faults to the contents of one file; returns the names of faults that
/// actually changed something. Shared with the reference model so both face the same world.
pub fn apply_content_faults(
    canonical: &str,
    original: &str,
    physical_read: u64,
    faults: &[Fault],
    fired: &mut Vec<&'static str>,
) -> Result<String, IncludeError> {
    let mut contents = original.to_string();
    for f in faults {
        let applies = match &f.sel {
            Sel::File(n) => n == canonical,
            Sel::All => true,
            _ => false,
        };
        if !applies {
            continue;
        }
        let before = contents.clone();
        match f.kind {
            FaultKind::ShortRead => {
                let mut o = (f.a as usize).min(contents.len());
                while !contents.is_char_boundary(o) {
                    o -= 1;
                }
                contents.truncate(o);
            }
            FaultKind::FlipBit => {
                let o = f.a as usize;
                if o < contents.len() {
                    let mut bytes = contents.clone().into_bytes();
                    bytes[o] ^= 1u8 << (f.b % 8);
                    match String::from_utf8(bytes) {
                        Ok(s) => contents = s,
                        Err(_) => {
                            // A real handler reading text would refuse the file
                            fired.push("flip_bit->not_text");
                            return Err(IncludeError::FileNotText);
                        }
                    }
                }
            }
            FaultKind::LoseLines | FaultKind::DupLines => {
                let lines: Vec<&str> = contents.split_inclusive('\n').collect();
                let a = (f.a as usize).min(lines.len());
                let b = (f.b as usize).min(lines.len()).max(a);
                let mut out = String::new();
                for l in &lines[..a] {
                    out.push_str(l);
                }
                if f.kind == FaultKind::DupLines {
                    for _ in 0..2 {
                        for l in &lines[a..b] {
                            out.push_str(l);
                        }
                    }
                }
                for l in &lines[b..] {
                    out.push_str(l);
                }
                contents = out;
            }
            FaultKind::Empty => contents.clear(),
            FaultKind::Crlf => contents = contents.replace("\r\n", "\n").replace('\n', "\r\n"),
            FaultKind::Bom => contents.insert(0, '\u{feff}'),
            FaultKind::Nul => {
                let mut o = (f.a as usize).min(contents.len());
                while !contents.is_char_boundary(o) {
                    o -= 1;
                }
                contents.insert(o, '\0');
            }
            FaultKind::InsertLines => {
                let lines: Vec<&str> = contents.split_inclusive('\n').collect();
                let a = (f.a as usize).min(lines.len());
                let mut out = String::new();
                for l in &lines[..a] {
                    out.push_str(l);
                }
                out.push_str(&f.text);
                for l in &lines[a..] {
                    out.push_str(l);
                }
                contents = out;
            }
            FaultKind::Append => contents.push_str(&f.text),
            FaultKind::Stale => {
                if physical_read >= 1 {
                    contents = f.text.clone();
                }
            }
            FaultKind::Trivia => contents = insert_trivia(&contents, f.a, f.b == 1),
            FaultKind::LongLines => contents = long_lines(&contents, f.a),
            FaultKind::Cr => contents = contents.replace("\r\n", "\n").replace('\n', "\r"),
            FaultKind::Control => {
                let mut o = (f.a as usize).min(contents.len());
                while !contents.is_char_boundary(o) {
                    o -= 1;
                }
                let c = ['\u{c}', '\u{b}', '\u{1a}', '\u{7f}', '\u{1b}', '\u{8}'][(f.b % 6) as usize];
                contents.insert(o, c);
            }
            FaultKind::NotFound | FaultKind::NotText | FaultKind::RealName => {}
        }
        if contents != before {
            fired.push(f.kind_name());
        }
    }
    Ok(contents)
}

/// Append a long trailing line comment with multi-byte characters to every line that is neither a
/// directive nor inside a block comment nor spliced
pub fn long_lines(text: &str, seed: u64) -> String {
    let mut rng = crate::prng::Rng::new(seed).sub("long-lines");
    let mut out = String::with_capacity(text.len() * 4);
    let mut in_block = false;
    for line in text.split_inclusive('\n') {
        let body = line.trim_end_matches(['\n', '\r']);
        let was_in = in_block;
        let mut k = 0;
        let b = body.as_bytes();
        while k < b.len() {
            if in_block {
                if b[k] == b'*' && b.get(k + 1) == Some(&b'/') {
                    in_block = false;
                    k += 1;
                }
            } else if b[k] == b'/' && b.get(k + 1) == Some(&b'/') {
                break;
            } else if b[k] == b'/' && b.get(k + 1) == Some(&b'*') {
                in_block = true;
                k += 1;
            }
            k += 1;
        }
        let skip = was_in
            || in_block
            || body.trim_start().starts_with('#')
            || body.ends_with('\\')
            || body.contains('"');
        out.push_str(body);
        if !skip {
            // multi-byte characters all along the comment, so that every byte offset of the long
            // line has one nearby
            let mut pad = String::from(" // ");
            let target = 236 + rng.below(40) as usize;
            let specials = ['\u{2500}', '\u{e9}', '\u{65e5}', '\u{1f600}', '\u{3042}'];
            while body.len() + pad.len() < target {
                if rng.chance(1, 3) {
                    pad.push(specials[rng.below(5) as usize]);
                } else {
                    pad.push('x');
                }
            }
            for _ in 0..(8 + rng.below(8)) {
                pad.push(specials[rng.below(5) as usize]);
            }
            out.push_str(&pad);
        }
        out.push_str(&line[body.len()..]);
    }
    out
}

/// Insert layout trivia at token boundaries of text lines. Conservative about what a boundary is:
/// words are runs of [A-Za-z0-9_.], punctuation runs are never split, nothing is inserted directly
/// after `<` or `>` (adjacency is significant there by design), and lines that are directives or
/// contain strings, comments or splices are left alone.
/// (`no_splices`: the same insertions at the same places, with every backslash-newline replaced by
/// a blank - the variant the reference model can read)
pub fn insert_trivia(text: &str, seed: u64, no_splices: bool) -> String {
    let mut rng = crate::prng::Rng::new(seed).sub("trivia");
    let mut out = String::with_capacity(text.len() + text.len() / 4);
    let mut in_directive_continuation = false;
    let mut in_block_comment = false;
    for line in text.split_inclusive('\n') {
        let body = line.trim_end_matches(['\n', '\r']);
        let trimmed = body.trim_start();
        // lines inside a block comment that started on an earlier line are not code
        let was_in_comment = in_block_comment;
        {
            let b = body.as_bytes();
            let mut k = 0;
            while k < b.len() {
                if in_block_comment {
                    if b[k] == b'*' && b.get(k + 1) == Some(&b'/') {
                        in_block_comment = false;
                        k += 1;
                    }
                } else if b[k] == b'/' && b.get(k + 1) == Some(&b'/') {
                    break;
                } else if b[k] == b'/' && b.get(k + 1) == Some(&b'*') {
                    in_block_comment = true;
                    k += 1;
                }
                k += 1;
            }
        }
        let untouchable = trimmed.starts_with('#')
            || was_in_comment
            || in_directive_continuation
            || body.matches('"').count() % 2 == 1
            || body.contains("//")
            || body.contains("/*")
            || body.contains("*/")
            || body.contains('\\')
            || body.contains('\'')
            || !body.is_ascii();
        in_directive_continuation =
            (trimmed.starts_with('#') || in_directive_continuation) && body.ends_with('\\');
        if trimmed.starts_with('#')
            && !was_in_comment
            && body.is_ascii()
            && !body.contains('\\')
            && !body.contains("//")
            && !body.contains("/*")
            && !body.contains("*/")
            && !body.contains('\'')
            && !(untouchable && body.contains('"') && !trimmed[1..].trim_start().starts_with("include"))
            && rng.chance(1, 3)
        {
            out.push_str(&directive_trivia(body, &mut rng, no_splices));
            out.push_str(&line[body.len()..]);
            continue;
        }
        if untouchable || trimmed.is_empty() {
            out.push_str(line);
            continue;
        }
        // split into units
        #[derive(PartialEq, Clone, Copy)]
        enum K {
            Word,
            Punct,
            Space,
        }
        let kind = |c: char| {
            if c.is_ascii_alphanumeric() || c == '_' || c == '.' {
                K::Word
            } else if c == ' ' || c == '\t' {
                K::Space
            } else {
                K::Punct
            }
        };
        let chars: Vec<char> = body.chars().collect();
        // a string literal is one unit (no escapes can occur: lines with a backslash are left alone)
        let mut in_string = vec![false; chars.len()];
        {
            let mut open = false;
            for (k, c) in chars.iter().enumerate() {
                if *c == '"' {
                    in_string[k] = true;
                    open = !open;
                } else {
                    in_string[k] = open;
                }
            }
        }
        let kind = |k: usize| if in_string[k] { K::Word } else { kind(chars[k]) };
        let mut i = 0;
        let mut prev_last: Option<char> = None;
        // inside a float literal with a signed exponent (1.5e+38f) there is no token boundary
        let mut in_exponent = 0u8;
        while i < chars.len() {
            let k = kind(i);
            let mut j = i;
            if in_string[i] {
                // exactly one literal per unit, so that two adjacent literals have a boundary
                j = i + 1;
                while j < chars.len() && chars[j] != '"' {
                    j += 1;
                }
                j = (j + 1).min(chars.len());
            } else {
                while j < chars.len() && !in_string[j] && kind(j) == k {
                    j += 1;
                }
            }
            let unit: String = chars[i..j].iter().collect();
            let glued = if in_exponent > 0 && k != K::Space {
                in_exponent -= 1;
                true
            } else {
                false
            };
            if k == K::Word
                && unit.starts_with(|c: char| c.is_ascii_digit() || c == '.')
                && unit.ends_with(['e', 'E'])
                && matches!(chars.get(j), Some('+') | Some('-'))
                && chars.get(j + 1).is_some_and(|c| c.is_ascii_digit())
            {
                in_exponent = 2;
            }
            // boundary in front of this unit
            if k != K::Space
                && !glued
                && let Some(p) = prev_last
                && p != '<'
                && p != '>'
                && rng.chance(1, 5)
            {
                // a comment next to '/' or '*' would form another comment delimiter
                let near_slash = matches!(p, '/' | '*') || matches!(chars[i], '/' | '*');
                let choice = rng.below(12) as usize;
                // (comments whose body starts or ends with the characters of a delimiter, and one
                // with multi-byte characters whose UTF-8 bytes cover 0x8A, 0x8D, 0xA0, 0xBF ...)
                let t = [
                    " ", "\t", "/*t*/", " /* t */ ", "\\\n", "  \\\n  ", "\n", " \n  ",
                    "/*/ t */", "/*/*/", " /*// t **/ ", "/* \u{304a}\u{00ca}\u{010a}\u{00a0}\u{07ff}\u{6cd5} */",
                ][choice];
                // a bare line break between a name and "(" is left out: whether a function-like
                // macro use may be split there is not what the statement's two exceptions settle
                // RSSL does not look across a bare line break for the "(" of a function-like macro
                // use; whether it should is not what the statement's two exceptions settle. So a
                // bare line break is only inserted where it cannot end up between a name and "("
                // after argument substitution either: in front of "," ")" and ";"
                let bare_newline = t.contains('\n') && !t.contains('\\');
                let newline_ok = matches!(chars[i], ',' | ')' | ';');
                out.push_str(if near_slash && t.contains("/*")
                    || bare_newline && !newline_ok
                    || no_splices && t.contains('\\')
                {
                    " "
                } else {
                    t
                });
            }
            out.extend(&chars[i..j]);
            if k != K::Space {
                prev_last = Some(chars[j - 1]);
            }
            i = j;
        }
        out.push_str(&line[body.len()..]);
    }
    // the end of the file is a token boundary too: a splice after the last line
    if out.ends_with('\n') && !out.ends_with("\\\n") && rng.chance(1, 5) && !no_splices {
        if rng.chance(1, 2) {
            // the last line itself ends in a splice
            out.pop();
            if out.ends_with('\r') {
                out.pop();
            }
            out.push_str(" \\\n");
        } else {
            out.push_str(["\\\n", "  \\\n", "\\\n\n"][rng.below(3) as usize]);
        }
    }
    out
}

/// Trivia at the token boundaries of a directive line (the statement's two exceptions - directly
/// after < or >, between a macro's name and its parameter list - and the inside of an include
/// string are left alone; so is the gap in front of the directive's name). No bare line breaks
/// and no line comments: those end the directive.
fn directive_trivia(body: &str, rng: &mut crate::prng::Rng, no_splices: bool) -> String {
    let chars: Vec<char> = body.chars().collect();
    let is_word = |c: char| c.is_ascii_alphanumeric() || c == '_' || c == '.';
    // units: words, single punctuation characters, runs of blanks
    let mut units: Vec<String> = Vec::new();
    let mut i = 0;
    while i < chars.len() {
        let c = chars[i];
        let mut j = i + 1;
        if is_word(c) {
            while j < chars.len() && is_word(chars[j]) {
                j += 1;
            }
        } else if c == ' ' || c == '\t' {
            while j < chars.len() && (chars[j] == ' ' || chars[j] == '\t') {
                j += 1;
            }
        } else if c == '"' {
            // an include string is one unit
            while j < chars.len() && chars[j] != '"' {
                j += 1;
            }
            j = (j + 1).min(chars.len());
        } else if !matches!(c, '(' | ')' | ',') {
            // a run of operator characters is one unit (&&, ==, ##, <=)
            while j < chars.len()
                && !is_word(chars[j])
                && !matches!(chars[j], ' ' | '\t' | '"' | '(' | ')' | ',')
            {
                j += 1;
            }
        }
        units.push(chars[i..j].iter().collect());
        i = j;
    }
    let blank = |u: &str| u.starts_with([' ', '\t']);
    // the directive's name is the first word after '#'
    let Some(name_at) = units.iter().position(|u| u.starts_with(|c: char| c.is_ascii_alphabetic())) else {
        return body.to_string();
    };
    let name = units[name_at].clone();
    let is_define = name == "define";
    let is_include = name == "include";
    // in "#define NAME(" nothing may come between NAME and "("
    let macro_name_at = if is_define {
        units.iter().enumerate().skip(name_at + 1).find(|(_, u)| !blank(u)).map(|(k, _)| k)
    } else {
        None
    };
    let mut out = String::new();
    let mut seen_string = false;
    let mut seen_angle = false;
    // inside a float literal with a signed exponent (1.5e+38f) there is no token boundary
    let mut glued = 0u8;
    for (k, u) in units.iter().enumerate() {
        let prev = if k > 0 { units[..k].iter().rev().find(|x| !blank(x)) } else { None };
        let in_literal = glued > 0 && !blank(u);
        if in_literal {
            glued -= 1;
        }
        if u.starts_with(|c: char| c.is_ascii_digit() || c == '.')
            && u.ends_with(['e', 'E'])
            && units.get(k + 1).is_some_and(|n| n == "+" || n == "-")
            && units.get(k + 2).is_some_and(|n| n.starts_with(|c: char| c.is_ascii_digit()))
        {
            glued = 2;
        }
        let boundary = !in_literal
            // (the gap between "#" and the directive's name is a token boundary like any other)
            && (k > name_at || (k == name_at && units[..k].iter().any(|x| x == "#")))
            && !blank(u)
            && prev.is_some_and(|p| !p.ends_with(['<', '>']))
            && !(macro_name_at.is_some_and(|m| k == m + 1) && u == "(")
            // (angle-bracket include operands are not tokenised as strings here: leave them)
            // (an include operand is left alone inside; trivia may stand in front of it)
            && !(is_include && k > name_at && (seen_string || seen_angle))
            && !(is_include && k > name_at && !u.starts_with('"') && u != "<");
        if boundary && rng.chance(1, 3) {
            let near_slash = u.starts_with(['/', '*']) || prev.is_some_and(|p| p.ends_with(['/', '*']));
            let t = [" ", "\t", "/*t*/", " /* t */ ", "\\\n", " \\\n  "][rng.below(6) as usize];
            out.push_str(if near_slash && t.contains("/*") || no_splices && t.contains('\\') { " " } else { t });
        }
        if u.starts_with('"') {
            seen_string = true;
        }
        if is_include && k > name_at && u.starts_with('<') {
            seen_angle = true;
        }
        out.push_str(u);
    }
    // the end of the directive is a boundary too
    if !is_include && rng.chance(1, 4) {
        out.push_str([" ", " /* t */", "\t"][rng.below(3) as usize]);
    }
    out
}

/// The include handler handed to rssl. One instance per task.
pub struct SimFs<'a> {
    pub spec: &'a FsSpec,
    pub faults: &'a [Fault],
    pub events: Vec<LoadEvent>,
    physical_reads: BTreeMap<String, u64>,
    /// Called at entry and exit of every load: the baton scheduler's yield point
    pub yield_hook: Option<&'a dyn Fn()>,
}

impl<'a> SimFs<'a> {
    pub fn new(spec: &'a FsSpec, faults: &'a [Fault]) -> SimFs<'a> {
        SimFs {
            spec,
            faults,
            events: Vec::new(),
            physical_reads: BTreeMap::new(),
            yield_hook: None,
        }
    }

    fn do_load(&mut self, file_name: &str, parent_name: &str) -> Result<FileData, IncludeError> {
        let index = self.events.len() as u64;
        let mut fired: Vec<&'static str> = Vec::new();

        let resolved = self.spec.resolve(file_name, parent_name);

        // Request-level faults
        let mut forced: Option<IncludeError> = None;
        for f in self.faults {
            let applies = match &f.sel {
                Sel::LoadIndex(k) => *k == index,
                Sel::IncludeString(s) => s == file_name,
                Sel::File(n) => resolved.as_deref() == Some(n.as_str()),
                Sel::All => true,
            };
            if !applies || resolved.is_none() {
                continue;
            }
            match f.kind {
                FaultKind::NotFound => {
                    forced = Some(IncludeError::FileNotFound);
                    fired.push("not_found");
                }
                FaultKind::NotText => {
                    forced = Some(IncludeError::FileNotText);
                    fired.push("not_text");
                }
                _ => {}
            }
            if forced.is_some() {
                break;
            }
        }

        let result = match (forced, &resolved) {
            (Some(e), _) => Err(e),
            (None, None) => Err(IncludeError::FileNotFound),
            (None, Some(canonical)) => {
                let reads = self.physical_reads.entry(canonical.clone()).or_insert(0);
                let physical_read = *reads;
                *reads += 1;
                // Faults selected by load index / include string that change content are mapped
                // onto the resolved file for this request only
                let mut file_faults: Vec<Fault> = Vec::new();
                for f in self.faults {
                    match &f.sel {
                        Sel::File(_) | Sel::All => file_faults.push(f.clone()),
                        Sel::LoadIndex(k) if *k == index => {
                            let mut g = f.clone();
                            g.sel = Sel::File(canonical.clone());
                            file_faults.push(g);
                        }
                        Sel::IncludeString(s) if s == file_name => {
                            let mut g = f.clone();
                            g.sel = Sel::File(canonical.clone());
                            file_faults.push(g);
                        }
                        _ => {}
                    }
                }
                let original = &self.spec.files[canonical];
                match apply_content_faults(canonical, original, physical_read, &file_faults, &mut fired)
                {
                    Ok(contents) => {
                        let mut real_name = canonical.clone();
                        for f in &file_faults {
                            if f.kind == FaultKind::RealName
                                && matches!(&f.sel, Sel::File(n) if n == canonical)
                            {
                                // "<unique>": a handler that names the same file differently on
                                // every request (naive path joining: a.h, inc/../a.h, ...)
                                real_name = if f.text == "<unique>" {
                                    format!("{}inc/../{canonical}", "inc/../".repeat(index as usize % 7))
                                        + &format!("#{index}")
                                } else {
                                    f.text.clone()
                                };
                                fired.push("real_name");
                            }
                        }
                        Ok(FileData {
                            real_name,
                            contents,
                        })
                    }
                    Err(e) => Err(e),
                }
            }
        };

        let ev = match &result {
            Ok(fd) => LoadEvent {
                index,
                file_name: file_name.to_string(),
                parent_name: parent_name.to_string(),
                resolved,
                response: "data",
                real_name: fd.real_name.clone(),
                bytes: fd.contents.len(),
                digest: crate::prng::fnv64(fd.contents.as_bytes()),
                fired,
            },
            Err(e) => LoadEvent {
                index,
                file_name: file_name.to_string(),
                parent_name: parent_name.to_string(),
                resolved,
                response: match e {
                    IncludeError::FileNotFound => "not_found",
                    IncludeError::FileNotText => "not_text",
                },
                real_name: String::new(),
                bytes: 0,
                digest: 0,
                fired,
            },
        };
        self.events.push(ev);
        result
    }
}

impl IncludeHandler for SimFs<'_> {
    fn load(&mut self, file_name: &str, parent_name: &str) -> Result<FileData, IncludeError> {
        if let Some(h) = self.yield_hook {
            h();
        }
        let r = self.do_load(file_name, parent_name);
        if let Some(h) = self.yield_hook {
            h();
        }
        r
    }
}

pub fn self_check() -> Result<(), String> {
    let cases = [
        ("a/b/../c.h", Some("a/c.h")),
        ("./a//b.h", Some("a/b.h")),
        ("../x", None),
        ("a/../../x", None),
        ("a/./b/./c", Some("a/b/c")),
    ];
    for (i, o) in cases {
        if normalise(i).as_deref() != o {
            return Err(format!("simfs normalise({i}) != {o:?}"));
        }
    }
    let mut fs = FsSpec::new(Policy::ParentRelative);
    fs.files.insert("a/x.h".into(), "1".into());
    fs.files.insert("x.h".into(), "2".into());
    if fs.resolve("x.h", "a/m.h").as_deref() != Some("a/x.h") {
        return Err("simfs resolve parent-relative".into());
    }
    if fs.resolve("x.h", "m.h").as_deref() != Some("x.h") {
        return Err("simfs resolve root".into());
    }
    if fs.resolve("../x.h", "a/m.h").as_deref() != Some("x.h") {
        return Err("simfs resolve dotdot".into());
    }
    Ok(())
}
