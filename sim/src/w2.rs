//! Workload W2 (stub, replaced below)
use crate::exec::{Target, TaskSpec};
use crate::prng::Rng;
use crate::simfs::FsSpec;
pub fn scenario(_rng: &mut Rng, i: u64) -> (String, FsSpec, TaskSpec) {
    let fs = crate::plan::snippet_fs("static const int x = 1;\n");
    let mut t = TaskSpec::compile(0, "test.rssl", Target::Dx);
    t.no_pipeline = true;
    (format!("W2:stub#{i}"), fs, t)
}
