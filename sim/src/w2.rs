//! Workload W2: container-filling programs for C07.
//!
//! Valid RSSL whose only purpose is to put several order-sensitive elements into every hash
//! container that is iterated on the way to the output (name generation scopes and names,
//! usage analysis keys, MSL implicit globals, MSL helper sets, inline constant sizes, enum
//! values). Programs are assembled from independent feature blocks; every block kind is
//! validated once per process against the real front end and dropped (with a note) if it no
//! longer compiles, so a syntax change upstream cannot raise an alarm.

use crate::exec::{Target, TaskSpec};
use crate::prng::Rng;
use crate::simfs::FsSpec;
use std::sync::OnceLock;

const NAMES: &[&str] = &[
    "f", "g", "h", "calc", "eval", "mix2", "blend", "apply", "step2", "fold", "scan", "emit",
];
const VALUE_NAMES: &[&str] = &[
    "v", "w", "acc", "total", "count", "state", "seed", "mask", "bias", "gain", "level", "phase",
];
const MSL_RESERVED: &[&str] = &[
    "vertex", "fragment", "kernel", "device", "constant", "thread", "threadgroup", "metal",
];
const SCALARS: &[&str] = &["int", "uint", "float"];

pub const BLOCK_KINDS: &[&str] = &[
    "namespaces",
    "overloads",
    "locals",
    "enums",
    "templates",
    "globals_graph",
    "resources",
    "cbuffers",
    "bind_groups",
    "wave",
    "call_ring",
    "const_edges",
    "register_spaces",
    "structs",
    "typedefs_arrays",
    "samplers",
    "control_flow",
];

/// Block kinds that are not validated at start-up: they probe the edges of constant evaluation and
/// may legitimately be rejected, but must never take the compiler down
const UNVALIDATED: &[&str] = &["const_edges", "register_spaces"];

fn pick<'a>(rng: &mut Rng, xs: &[&'a str]) -> &'a str {
    xs[rng.below(xs.len() as u64) as usize]
}

fn distinct<'a>(rng: &mut Rng, xs: &[&'a str], lo: u64, hi: u64) -> Vec<&'a str> {
    let n = rng.range(lo, hi) as usize;
    let mut v: Vec<&str> = xs.to_vec();
    rng.shuffle(&mut v);
    v.truncate(n.min(xs.len()));
    v
}

/// One feature block: declarations, plus statements for the body of the entry function that use
/// them. `u` makes every top-level name of the block unique within the program.
pub fn block(kind: &str, rng: &mut Rng, u: usize) -> (String, String) {
    let mut decl = String::new();
    let mut body = String::new();
    match kind {
        "namespaces" => {
            // sibling and nested namespaces with equal member names
            let n = rng.range(2, 4) as usize;
            let members = distinct(rng, NAMES, 2, 3);
            let vals = distinct(rng, VALUE_NAMES, 2, 2);
            let overloaded = rng.chance(2, 3);
            let ovl = format!("pick{u}");
            if overloaded && rng.chance(2, 3) {
                decl.push_str(&format!("int {ovl}(int x) {{ return 100; }}\n"));
                decl.push_str(&format!("int {ovl}(float x) {{ return 101; }}\n"));
                body.push_str(&format!("sink += {ovl}((int)1) + {ovl}(1.0f);\n"));
            }
            for i in 0..n {
                decl.push_str(&format!("namespace NS{u}_{i} {{\n"));
                for v in &vals {
                    decl.push_str(&format!("static int {v};\n"));
                }
                for m in &members {
                    decl.push_str(&format!(
                        "int {m}(int x) {{ return x + {} + {i}; }}\n",
                        vals[0]
                    ));
                }
                // the same name overloaded inside several namespaces (and at the root below):
                // every one of these scopes has to generate suffixes for it
                if overloaded {
                    decl.push_str(&format!("int {ovl}(int x) {{ return {i}; }}\n"));
                    decl.push_str(&format!("int {ovl}(float x) {{ return {i} + 1; }}\n"));
                    if rng.chance(1, 2) {
                        decl.push_str(&format!("int {ovl}(uint x) {{ return {i} + 2; }}\n"));
                    }
                    body.push_str(&format!(
                        "sink += NS{u}_{i}::{ovl}((int)1) + NS{u}_{i}::{ovl}(1.0f);\n"
                    ));
                }
                if rng.chance(1, 2) {
                    decl.push_str(&format!("namespace Inner {{\nint {}(int x) {{ return x; }}\nstatic int {};\n}}\n", members[0], vals[1]));
                }
                decl.push_str("}\n");
                for m in &members {
                    body.push_str(&format!("sink += NS{u}_{i}::{m}({i});\n"));
                }
            }
        }
        "overloads" => {
            // overload sets next to globals called name_N: generated suffixes collide with them
            let base = pick(rng, NAMES);
            let name = format!("{base}{u}");
            let k = rng.range(2, 4) as usize;
            let tys = ["int", "float", "uint", "float2"];
            // half of the sets are declared first and used before they are defined
            if rng.chance(1, 2) {
                for ty in tys.iter().take(k) {
                    decl.push_str(&format!("int {name}({ty} x);\n"));
                }
                decl.push_str(&format!(
                    "int {name}_early(uint v) {{ return {name}((int)v) + {name}((float)v){}; }}\n",
                    if k >= 3 { format!(" + {name}(v)") } else { String::new() }
                ));
                body.push_str(&format!("sink += {name}_early(2u);\n"));
            }
            for (i, ty) in tys.iter().enumerate().take(k) {
                decl.push_str(&format!("int {name}({ty} x) {{ return {i}; }}\n"));
            }
            let c = rng.range(1, 3) as usize;
            let mut idx: Vec<usize> = (0..4).collect();
            rng.shuffle(&mut idx);
            for i in idx.into_iter().take(c) {
                decl.push_str(&format!("static int {name}_{i};\n"));
                body.push_str(&format!("sink += {name}_{i};\n"));
            }
            body.push_str(&format!("sink += {name}((int)1) + {name}(1.0f);\n"));
            // locals spelled like the names the overloads will be given
            if rng.chance(1, 2) {
                decl.push_str(&format!(
                    "int {name}_locals(int p) {{ int {name}_0 = p; int {name}_1 = {name}_0 + 1; return {name}_1 + {name}((int)p); }}\n"
                ));
                body.push_str(&format!("sink += {name}_locals(1);\n"));
            }
        }
        "locals" => {
            // locals that clash with globals, with each other across functions and with words
            // the targets reserve
            let g = distinct(rng, VALUE_NAMES, 3, 3);
            for v in &g {
                decl.push_str(&format!("static int {v}{u};\n"));
            }
            decl.push_str(&format!("int locals{u}(int p) {{\n"));
            for r in distinct(rng, MSL_RESERVED, 2, 4) {
                decl.push_str(&format!("int {r} = p; p += {r};\n"));
                decl.push_str(&format!("int {r}_0 = p; p += {r}_0;\n"));
            }
            for v in &g {
                decl.push_str(&format!("int {v}{u}_0 = {v}{u}; p += {v}{u}_0;\n"));
            }
            decl.push_str("return p;\n}\n");
            body.push_str(&format!("sink += locals{u}(1);\n"));
        }
        "enums" => {
            let n = rng.range(4, 12) as usize;
            decl.push_str(&format!("enum E{u} {{\n"));
            let mut names: Vec<String> = (0..n).map(|i| format!("V{u}_{}", (i * 7 + 3) % 31)).collect();
            names.dedup();
            for (i, v) in names.iter().enumerate() {
                if rng.chance(1, 3) {
                    decl.push_str(&format!("{v} = {},\n", i * 3));
                } else {
                    decl.push_str(&format!("{v},\n"));
                }
            }
            decl.push_str("};\n");
            body.push_str(&format!("sink += (int)E{u}::{};\n", names[0]));
            body.push_str(&format!("sink += (int)E{u}::{};\n", names[names.len() - 1]));
        }
        "templates" => {
            let name = format!("tmpl{u}");
            decl.push_str(&format!(
                "template<typename T> T {name}(T a, T b) {{ return a + b; }}\n"
            ));
            for ty in distinct(rng, SCALARS, 2, 3) {
                let lit = match ty {
                    "int" => "1",
                    "uint" => "1u",
                    _ => "1.0f",
                };
                body.push_str(&format!("sink += (int){name}<{ty}>({lit}, {lit});\n"));
            }
        }
        "globals_graph" => {
            // static / groupshared globals used at the leaves of chain, diamond and fan-out call
            // graphs: MSL threads them through every function on the way as implicit parameters
            let n = rng.range(3, 8) as usize;
            for i in 0..n {
                match rng.below(3) {
                    0 => decl.push_str(&format!("static int s{u}_{i};\n")),
                    1 => decl.push_str(&format!("static float s{u}_{i};\n")),
                    _ => decl.push_str(&format!("groupshared uint s{u}_{i};\n")),
                }
            }
            for i in 0..n {
                decl.push_str(&format!(
                    "int leaf{u}_{i}() {{ s{u}_{i} = s{u}_{i} + 1; return (int)s{u}_{i}; }}\n"
                ));
            }
            match rng.below(3) {
                0 => {
                    // chain
                    decl.push_str(&format!("int mid{u}_0() {{ return leaf{u}_0(); }}\n"));
                    for i in 1..n {
                        decl.push_str(&format!(
                            "int mid{u}_{i}() {{ return mid{u}_{}() + leaf{u}_{i}(); }}\n",
                            i - 1
                        ));
                    }
                    body.push_str(&format!("sink += mid{u}_{}();\n", n - 1));
                }
                1 => {
                    // diamond
                    let h = n / 2;
                    let a: Vec<String> = (0..h).map(|i| format!("leaf{u}_{i}()")).collect();
                    let b: Vec<String> = (h..n).map(|i| format!("leaf{u}_{i}()")).collect();
                    decl.push_str(&format!("int left{u}() {{ return {}; }}\n", a.join(" + ")));
                    decl.push_str(&format!("int right{u}() {{ return {}; }}\n", b.join(" + ")));
                    decl.push_str(&format!(
                        "int top{u}() {{ return left{u}() + right{u}() + leaf{u}_0(); }}\n"
                    ));
                    body.push_str(&format!("sink += top{u}();\n"));
                }
                _ => {
                    // fan-out
                    let all: Vec<String> = (0..n).map(|i| format!("leaf{u}_{i}()")).collect();
                    decl.push_str(&format!("int fan{u}() {{ return {}; }}\n", all.join(" + ")));
                    body.push_str(&format!("sink += fan{u}();\n"));
                }
            }
        }
        "resources" => {
            // several object kinds with several intrinsic methods each: MSL helper sets
            decl.push_str(&format!("const ByteAddressBuffer rb{u};\n"));
            decl.push_str(&format!("const RWByteAddressBuffer rwb{u};\n"));
            decl.push_str(&format!("const Texture2D<float4> tex{u};\n"));
            decl.push_str(&format!("const RWTexture2D<float4> rwtex{u};\n"));
            decl.push_str(&format!("const StructuredBuffer<uint> sb{u};\n"));
            decl.push_str(&format!("const RWStructuredBuffer<uint> rwsb{u};\n"));
            decl.push_str(&format!("const Buffer<float4> tb{u};\n"));
            let mut uses: Vec<String> = vec![
                format!("sink += (int)rb{u}.Load(0);"),
                format!("sink += (int)rb{u}.Load2(0).x;"),
                format!("sink += (int)rb{u}.Load3(0).x;"),
                format!("sink += (int)rb{u}.Load4(0).x;"),
                format!("rwb{u}.Store(0, 1u);"),
                format!("rwb{u}.Store2(0, uint2(1u, 2u));"),
                format!("sink += (int)rwb{u}.Load(4);"),
                format!("sink += (int)tex{u}.Load(int3(0, 0, 0)).x;"),
                format!("rwtex{u}[uint2(0, 0)] = float4(0, 0, 0, 0);"),
                format!("sink += (int)sb{u}.Load(0);"),
                format!("sink += (int)sb{u}[1];"),
                format!("rwsb{u}[0] = 1u;"),
                format!("sink += (int)tb{u}.Load(0).x;"),
            ];
            rng.shuffle(&mut uses);
            let k = rng.range(5, uses.len() as u64) as usize;
            for s in uses.into_iter().take(k) {
                body.push_str(&s);
                body.push('\n');
            }
        }
        "cbuffers" => {
            let n = rng.range(1, 3) as usize;
            for i in 0..n {
                decl.push_str(&format!("cbuffer CB{u}_{i} {{\n"));
                for (j, v) in distinct(rng, VALUE_NAMES, 1, 4)
                    .iter()
                    .enumerate()
                {
                    let ty = ["int", "float4", "uint", "float2"][j % 4];
                    decl.push_str(&format!("{ty} cb{u}_{i}_{v};\n"));
                    if j == 0 {
                        body.push_str(&format!("sink += cb{u}_{i}_{v};\n"));
                        // ... and inside an index expression
                        body.push_str(&format!(
                            "{{ int cb_arr{u}_{i}[4]; cb_arr{u}_{i}[0] = 1; cb_arr{u}_{i}[cb{u}_{i}_{v} & 3] = 2; sink += cb_arr{u}_{i}[(cb{u}_{i}_{v} + 1) & 3]; }}\n"
                        ));
                    }
                }
                decl.push_str("}\n");
            }
        }
        "bind_groups" => {
            // BufferAddress globals in several bind groups: inline constant blocks under
            // Vulkan + buffer addresses
            let groups = rng.range(2, 4) as usize;
            let mut order: Vec<usize> = (0..groups).collect();
            rng.shuffle(&mut order);
            for g in order {
                for k in 0..rng.range(1, 2) {
                    decl.push_str(&format!(
                        "[[rssl::bind_group({g})]] const BufferAddress ba{u}_{g}_{k};\n"
                    ));
                    body.push_str(&format!("sink += (int)ba{u}_{g}_{k}.Load<uint>(0);\n"));
                }
                // ... and an array of them
                if rng.chance(1, 3) {
                    decl.push_str(&format!(
                        "[[rssl::bind_group({g})]] const BufferAddress baa{u}_{g}[2];\n"
                    ));
                    body.push_str(&format!("sink += (int)baa{u}_{g}[1].Load<uint>(4);\n"));
                }
            }
        }
        "call_ring" => {
            // functions that call each other in a ring (forward declared), each touching a
            // different global: transitive usage has to be closed over a cycle
            let n = rng.range(2, 5) as usize;
            for i in 0..n {
                match rng.below(3) {
                    0 => decl.push_str(&format!("const RWByteAddressBuffer ring_g{u}_{i};\n")),
                    1 => decl.push_str(&format!("static uint ring_g{u}_{i};\n")),
                    _ => decl.push_str(&format!("groupshared uint ring_g{u}_{i};\n")),
                }
            }
            for i in 0..n {
                decl.push_str(&format!("void ring{u}_{i}(uint n);\n"));
            }
            let mut order: Vec<usize> = (0..n).collect();
            rng.shuffle(&mut order);
            for i in order {
                let next = (i + 1) % n;
                let touch = format!("ring_touch{u}_{i}");
                let _ = touch;
                decl.push_str(&format!("void ring{u}_{i}(uint n) {{\n"));
                decl.push_str(&format!("    ring_use{u}_{i}(n);\n"));
                decl.push_str(&format!("    if (n > 0) ring{u}_{next}(n - 1);\n"));
                // an extra chord makes the cycle structure richer
                if n > 2 && rng.chance(1, 3) {
                    let chord = (i + 2) % n;
                    decl.push_str(&format!("    if (n > 1) ring{u}_{chord}(n - 2);\n"));
                }
                decl.push_str("}\n");
            }
            // the functions that touch the globals are declared before the ring uses them
            let mut pre = String::new();
            for i in 0..n {
                pre.push_str(&format!("void ring_use{u}_{i}(uint n);\n"));
            }
            decl = format!("{pre}{decl}");
            for i in 0..n {
                // body differs by the kind of global: decided by looking at the declaration text
                let is_buf = decl.contains(&format!("const RWByteAddressBuffer ring_g{u}_{i};"));
                if is_buf {
                    decl.push_str(&format!(
                        "void ring_use{u}_{i}(uint n) {{ ring_g{u}_{i}.Store(0, n); }}\n"
                    ));
                } else {
                    decl.push_str(&format!(
                        "void ring_use{u}_{i}(uint n) {{ ring_g{u}_{i} = n; }}\n"
                    ));
                }
            }
            body.push_str(&format!("ring{u}_{}(3u);\n", rng.below(n as u64)));
        }
        "const_edges" => {
            // constant expressions over boundary values in the positions that demand a constant
            let ints = ["0", "1", "2147483647", "(-2147483647 - 1)", "31", "32", "40", "-1", "5"];
            let uints = ["0u", "1u", "4294967295u", "31u", "32u", "2147483648u", "7u"];
            let iops = ["+", "-", "*", "/", "%", "<<", ">>", "&", "|", "^"];
            let mut expr = |rng: &mut Rng, unsigned: bool, depth: u32| -> String {
                fn go(rng: &mut Rng, vals: &[&str], ops: &[&str], depth: u32) -> String {
                    if depth == 0 || rng.chance(1, 3) {
                        let v = vals[rng.below(vals.len() as u64) as usize];
                        return match rng.below(6) {
                            0 => format!("(~{v})"),
                            1 => format!("(-{v})"),
                            _ => v.to_string(),
                        };
                    }
                    let op = ops[rng.below(ops.len() as u64) as usize];
                    format!("({} {op} {})", go(rng, vals, ops, depth - 1), go(rng, vals, ops, depth - 1))
                }
                if unsigned {
                    go(rng, &uints, &iops, depth)
                } else {
                    go(rng, &ints, &iops, depth)
                }
            };
            for k in 0..rng.range(2, 5) {
                let unsigned = rng.chance(1, 2);
                let ty = if unsigned { "uint" } else { "int" };
                let e = expr(rng, unsigned, 2);
                match rng.below(5) {
                    0 => decl.push_str(&format!("static const {ty} ce{u}_{k} = {e};\n")),
                    1 => decl.push_str(&format!("static int ce_arr{u}_{k}[({e}) & 7u | 1u];\n").replace("& 7u | 1u", if unsigned { "& 7u | 1u" } else { "& 7 | 1" })),
                    2 => decl.push_str(&format!("enum CE{u}_{k} {{ CEV{u}_{k}_A = {e}, CEV{u}_{k}_B }};\n")),
                    3 => {
                        decl.push_str(&format!(
                            "int ce_sw{u}_{k}(int x) {{ switch (x) {{ case {e}: return 1; default: return 0; }} }}\n"
                        ));
                        body.push_str(&format!("sink += ce_sw{u}_{k}(1);\n"));
                    }
                    _ => {
                        decl.push_str(&format!("static const {ty} ce{u}_{k} = {e};\n"));
                        body.push_str(&format!("sink += (int)ce{u}_{k};\n"));
                    }
                }
            }
        }
        "register_spaces" => {
            // explicit registers and register spaces / bind groups beyond what the tests use,
            // and the unsupported packoffset annotation
            let n = rng.range(2, 5);
            for k in 0..n {
                let space = [0u64, 1, 2, 3, 4, 5, 7][rng.below(7) as usize];
                match rng.below(5) {
                    0 => decl.push_str(&format!(
                        "const Texture2D<float4> rs_t{u}_{k} : register(t{}, space{space});\n",
                        rng.below(6)
                    )),
                    1 => decl.push_str(&format!(
                        "const RWByteAddressBuffer rs_b{u}_{k} : register(space{space});\n"
                    )),
                    2 => decl.push_str(&format!(
                        "[[rssl::bind_group({space})]] const StructuredBuffer<uint> rs_s{u}_{k};\n"
                    )),
                    3 => decl.push_str(&format!(
                        "const SamplerState rs_smp{u}_{k} : register(s{}, space{space});\n",
                        rng.below(4)
                    )),
                    _ => {
                        if rng.chance(1, 3) {
                            decl.push_str(&format!(
                                "cbuffer RsCb{u}_{k} : register(b{}, space{space}) {{ float4 rs_v{u}_{k} : packoffset(c0); }}\n",
                                rng.below(4)
                            ));
                        } else {
                            decl.push_str(&format!(
                                "cbuffer RsCb{u}_{k} : register(b{}, space{space}) {{ float4 rs_v{u}_{k}; }}\n",
                                rng.below(4)
                            ));
                        }
                        body.push_str(&format!("sink += (int)rs_v{u}_{k}.x;\n"));
                    }
                }
            }
            // use what was declared
            for line in decl.clone().lines() {
                for prefix in ["rs_t", "rs_b", "rs_s", "rs_smp"] {
                    if let Some(pos) = line.find(&format!(" {prefix}{u}_")) {
                        let name: String = line[pos + 1..]
                            .chars()
                            .take_while(|c| c.is_alphanumeric() || *c == '_')
                            .collect();
                        body.push_str(&format!("{name};\n"));
                    }
                }
            }
        }
        "structs" => {
            // several structs with members and methods, nested struct types, used as locals,
            // parameters and element types of buffers
            let n = rng.range(2, 4) as usize;
            for i in 0..n {
                decl.push_str(&format!("struct St{u}_{i} {{\n"));
                for (j, v) in distinct(rng, VALUE_NAMES, 2, 4).iter().enumerate() {
                    let ty = ["int", "float2", "uint", "float4"][j % 4];
                    decl.push_str(&format!("    {ty} {v};\n"));
                }
                if i > 0 {
                    decl.push_str(&format!("    St{u}_{} inner;\n", i - 1));
                }
                decl.push_str(&format!("    int get{i}() {{ return {i}; }}\n"));
                decl.push_str(&format!("    int twice{i}(int x) {{ return x + get{i}(); }}\n"));
                decl.push_str("};\n");
                decl.push_str(&format!("const StructuredBuffer<St{u}_{i}> st_buf{u}_{i};\n"));
                decl.push_str(&format!(
                    "int use_st{u}_{i}(St{u}_{i} s) {{ return s.get{i}() + s.twice{i}(2); }}\n"
                ));
                body.push_str(&format!(
                    "{{ St{u}_{i} tmp = st_buf{u}_{i}.Load(0); sink += use_st{u}_{i}(tmp); }}\n"
                ));
            }
        }
        "typedefs_arrays" => {
            let n = rng.range(2, 4) as usize;
            for i in 0..n {
                let ty = ["int", "uint", "float", "float4"][i % 4];
                decl.push_str(&format!("typedef {ty} Td{u}_{i};\n"));
                decl.push_str(&format!("static Td{u}_{i} td_arr{u}_{i}[{}];\n", 2 + i));
                decl.push_str(&format!("groupshared Td{u}_{i} td_gs{u}_{i}[{}];\n", 4 * (i + 1)));
                decl.push_str(&format!(
                    "Td{u}_{i} td_get{u}_{i}(uint k) {{ td_gs{u}_{i}[k] = td_arr{u}_{i}[1]; return td_arr{u}_{i}[0]; }}\n"
                ));
                body.push_str(&format!("td_get{u}_{i}(0u);\n"));
            }
        }
        "samplers" => {
            let n = rng.range(1, 3) as usize;
            decl.push_str(&format!("const Texture2D<float4> smp_tex{u};\n"));
            for i in 0..n {
                let filter = ["MIN_MAG_MIP_LINEAR", "MIN_MAG_MIP_POINT"][i % 2];
                let addr = ["Clamp", "Wrap"][i % 2];
                decl.push_str(&format!(
                    "const SamplerState smp{u}_{i} = StaticSampler\n{{\n    Filter = {filter};\n    AddressU = {addr};\n    AddressV = {addr};\n}};\n"
                ));
                body.push_str(&format!(
                    "sink += (int)smp_tex{u}.SampleLevel(smp{u}_{i}, float2(0.5f, 0.5f), 0.0f).x;\n"
                ));
            }
            decl.push_str(&format!("const SamplerState smp_dyn{u};\n"));
            body.push_str(&format!(
                "sink += (int)smp_tex{u}.SampleLevel(smp_dyn{u}, float2(0.0f, 0.0f), 0.0f).y;\n"
            ));
            // the same intrinsic on textures of several dimensions: one helper overload each on
            // Metal (round 10: the helpers' order had only been determined by their flags)
            for (ty, name, coord) in [
                ("Texture3D", "t3d", "float3(0.0f, 0.0f, 0.0f)"),
                ("TextureCube", "tcube", "float3(0.0f, 0.0f, 1.0f)"),
                ("Texture2DArray", "t2a", "float3(0.0f, 0.0f, 1.0f)"),
                ("TextureCubeArray", "tca", "float4(0.0f, 0.0f, 1.0f, 0.0f)"),
            ] {
                decl.push_str(&format!("const {ty}<float4> smp_{name}{u};\n"));
                body.push_str(&format!(
                    "sink += (int)smp_{name}{u}.SampleLevel(smp_dyn{u}, {coord}, 0.0f).x;\n"
                ));
            }
        }
        "control_flow" => {
            decl.push_str(&format!("int cf{u}(int x) {{\n    int acc = 0;\n"));
            for k in 0..rng.range(2, 5) {
                match rng.below(5) {
                    0 => decl.push_str(&format!("    for (int i{k} = 0; i{k} < x; ++i{k}) {{ acc += i{k}; }}\n")),
                    1 => decl.push_str(&format!("    while (acc < {k}) {{ acc += 2; }}\n")),
                    2 => decl.push_str(&format!("    switch (x) {{ case {k}: acc += 1; break; case {}: acc += 2; break; default: break; }}\n", k + 10)),
                    3 => decl.push_str(&format!("    if (x > {k}) {{ acc -= 1; }} else if (x < -{k}) {{ acc += 1; }} else {{ acc = 0; }}\n")),
                    _ => decl.push_str(&format!("    do {{ acc += 1; }} while (acc < {k});\n    acc = x > {k} ? acc : -acc;\n")),
                }
            }
            decl.push_str("    return acc;\n}\n");
            body.push_str(&format!("sink += cf{u}(sink);\n"));
        }
        "wave" => {
            decl.push_str(&format!(
                "uint wave{u}() {{ return WaveGetLaneCount() + WaveGetLaneIndex(); }}\n"
            ));
            decl.push_str(&format!("static uint ws{u};\n"));
            decl.push_str(&format!(
                "uint wave_outer{u}() {{ ws{u} = ws{u} + 1u; return wave{u}() + ws{u}; }}\n"
            ));
            body.push_str(&format!("sink += (int)wave_outer{u}();\n"));
        }
        _ => {}
    }
    (decl, body)
}

/// Assemble a program from blocks and wrap the uses into 1-3 pipelines
pub fn program(kinds: &[&str], rng: &mut Rng) -> String {
    let mut decls = String::new();
    let mut bodies: Vec<String> = Vec::new();
    for (u, k) in kinds.iter().enumerate() {
        let (d, b) = block(k, &mut rng.sub_n(k, u as u64), u);
        decls.push_str(&d);
        bodies.push(b);
    }
    let mut out = decls;
    let pipelines = rng.range(1, 3) as usize;
    for p in 0..pipelines {
        // every pipeline uses a (different) subset of the blocks
        let mut body = String::from("int sink = 0;\n");
        for (i, b) in bodies.iter().enumerate() {
            if pipelines == 1 || (i + p) % 2 == 0 || rng.chance(1, 3) {
                body.push_str(b);
            }
        }
        match (p + rng.below(2) as usize) % 2 {
            0 => {
                out.push_str(&format!(
                    "const RWByteAddressBuffer out_buf{p};\n[numthreads(8, 8, 1)]\nvoid CS{p}(uint3 dtid : SV_DispatchThreadID) {{\n{body}out_buf{p}.Store(0, (uint)sink);\n}}\nPipeline P{p}\n{{\n    ComputeShader = CS{p};\n}}\n"
                ));
            }
            _ => {
                out.push_str(&format!(
                    "void VS{p}(uint vid : SV_VertexID, out float4 o_pos : SV_Position) {{\n{body}o_pos = float4(sink, 0, 0, 1);\n}}\nfloat4 PS{p}() : SV_Target0 {{\n{body}return float4(sink, 0, 0, 0);\n}}\nPipeline P{p}\n{{\n    VertexShader = VS{p};\n    PixelShader = PS{p};\n}}\n"
                ));
            }
        }
    }
    // pipeline names are case sensitive: a second pipeline that differs from P0 only in case
    if rng.chance(1, 3) {
        out.push_str("void cs_lower_case() {}\nPipeline p0\n{\n    ComputeShader = cs_lower_case;\n}\n");
    }
    out
}

fn compiles(src: &str, target: Target, buffer_address: bool) -> Result<(), String> {
    let fs = crate::plan::snippet_fs(src);
    let mut t = TaskSpec::compile(0, "test.rssl", target);
    t.buffer_address = buffer_address;
    let ex = crate::exec::ExecSpec::single((7, 9), crate::plan::STACK_MAIN, t);
    let res = crate::exec::run_exec(&ex, std::slice::from_ref(&fs));
    let r = &res.results[0][0];
    // a panic is not a rejection: the block stays in the workload so that the campaign meets,
    // attributes and reports it
    if r.kind != crate::exec::OutcomeKind::Err {
        Ok(())
    } else {
        Err(r.text.lines().take(3).collect::<Vec<_>>().join(" | "))
    }
}

/// Does the real front end accept this block kind today (fault-free, every target)? Runs rssl in
/// the calling process: only the `w2-validate` subcommand calls it, in a process of its own.
pub fn validate_kind_here(k: &str) -> Result<(), String> {
    for trial in 0..3u64 {
        let mut rng = Rng::new(0xB10C).sub_n(k, trial);
        let src = program(&[k], &mut rng);
        for (target, ba) in [(Target::Dx, false), (Target::Vk, true), (Target::Msl, false)] {
            if k == "bind_groups" && target != Target::Vk {
                continue;
            }
            if let Err(e) = compiles(&src, target, ba) {
                return Err(format!(
                    "W2 block '{k}' dropped: does not compile for {} ({e})",
                    target.name()
                ));
            }
        }
    }
    Ok(())
}

pub const KINDS_ENV: &str = "RSSL_SIM_W2KINDS";

/// The value workers inherit so that they do not validate again
pub fn kinds_env_value() -> String {
    let (ok, notes) = valid_kinds();
    let mut v = ok.join(",");
    for n in notes {
        v.push('\n');
        v.push_str(&n.replace('\n', " "));
    }
    v
}

/// Block kinds the real front end accepts today, with notes about the ones that were dropped.
/// Each kind is validated in a process of its own (a kind whose validation kills the process is
/// kept: the campaign then attributes the death to a case and reports it), once per campaign:
/// the supervisor hands the answer to its workers through the environment.
pub fn valid_kinds() -> &'static (Vec<&'static str>, Vec<String>) {
    static V: OnceLock<(Vec<&'static str>, Vec<String>)> = OnceLock::new();
    V.get_or_init(|| {
        if let Ok(v) = std::env::var(KINDS_ENV) {
            let mut lines = v.split('\n');
            let first = lines.next().unwrap_or("");
            let ok: Vec<&'static str> = BLOCK_KINDS
                .iter()
                .copied()
                .filter(|k| first.split(',').any(|x| x == *k))
                .collect();
            return (ok, lines.map(|l| l.to_string()).collect());
        }
        let exe = std::env::current_exe().ok();
        let mut ok = Vec::new();
        let mut notes = Vec::new();
        for k in BLOCK_KINDS {
            if UNVALIDATED.contains(k) {
                ok.push(*k);
                continue;
            }
            // the validator gets 20 s of wall clock (a valid block compiles in milliseconds); one
            // that hangs is killed and its kind kept, like one that dies
            let out = exe.as_ref().and_then(|exe| {
                let mut child = std::process::Command::new(exe)
                    .args(["w2-validate", k])
                    .stdin(std::process::Stdio::null())
                    .stdout(std::process::Stdio::piped())
                    .stderr(std::process::Stdio::null())
                    .spawn()
                    .ok()?;
                let deadline = std::time::Instant::now() + std::time::Duration::from_secs(20);
                loop {
                    match child.try_wait() {
                        Ok(Some(_)) => break,
                        Ok(None) if std::time::Instant::now() < deadline => {
                            std::thread::sleep(std::time::Duration::from_millis(5));
                        }
                        _ => {
                            let _ = child.kill();
                            let _ = child.wait();
                            return None;
                        }
                    }
                }
                child.wait_with_output().ok()
            });
            match out {
                Some(o) if o.status.success() => {
                    let text = String::from_utf8_lossy(&o.stdout);
                    match text.lines().find_map(|l| l.strip_prefix("ERR ")) {
                        Some(e) => notes.push(e.to_string()),
                        None => ok.push(*k),
                    }
                }
                other => {
                    notes.push(format!(
                        "W2 block '{k}': the validating process did not finish ({}); kept in the workload",
                        other.map(|o| o.status.to_string()).unwrap_or_else(|| "killed after 20 s".into())
                    ));
                    ok.push(*k);
                }
            }
        }
        (ok, notes)
    })
}

/// Program tails: mostly rejected constructs whose diagnostic could mention (or choose among)
/// several declarations, name clashes between kinds of symbols, pipeline properties, stage linking
pub const TAILS: &[&str] = &[
            "int ovl_err(int x) { return 0; }\nint ovl_err(float x) { return 1; }\nint ovl_err(uint x) { return 2; }\nstatic int ovl_use = ovl_err(1);\n",
            "void unknown_use() { int local_q = 1; local_q = not_declared_anywhere + local_q; }\n",
            "static int dup_global;\nstatic float dup_global;\n",
            "int argc_err(int a, int b) { return a; }\nint argc_err(float a) { return 1; }\nstatic int argc_use = argc_err(1, 2, 3);\n",
            "enum DupE { DA, DB, DA };\n",
            "struct DupS { int m; float m; };\n",
            "void bad_member() { float4 v = float4(0, 0, 0, 0); v.not_a_member = 1; }\n",
            "enum BadRange {\n    BR_LOW = -1,\n    BR_MID = 5,\n    BR_HIGH = 0xFFFFFFFF,\n    BR_LOWER = -7,\n};\n",
            "enum BadRange2 { BQ_A = 0xFFFFFFFF, BQ_B = -2, BQ_C = -1, BQ_D = 0xFFFFFFFE };\n",
            "struct DupM { int a; int b; int a; int b; };\n",
            "void dup_params(int p, float p) {}\n",
            "int ret_mismatch() { float4 v = float4(1, 2, 3, 4); return v; }\nint ret_mismatch2() { return; }\n",
            "void dup_cs() {}\nPipeline DupP { ComputeShader = dup_cs; }\nPipeline DupP { ComputeShader = dup_cs; }\n",
            "void dup_cs2() {}\nPipeline P0 { ComputeShader = dup_cs2; }\n",
            "Pipeline NoEntry { }\n",
            "void twice_cs() {}\nPipeline Twice { ComputeShader = twice_cs; ComputeShader = twice_cs; }\n",
            // graphics state on a compute pipeline, one property at a time
            "void gs_cs0() {}\nPipeline GsCs0 { ComputeShader = gs_cs0; DepthTargetFormat = \"D32_FLOAT\"; }\n",
            "void gs_cs1() {}\nPipeline GsCs1 { ComputeShader = gs_cs1; RenderTargetFormat0 = \"R8G8B8A8_UNORM\"; }\n",
            "void gs_cs2() {}\nPipeline GsCs2 { ComputeShader = gs_cs2; CullMode = Back; }\n",
            "void gs_cs3() {}\nPipeline GsCs3 { ComputeShader = gs_cs3; WindingOrder = Clockwise; }\n",
            "void gs_cs4() {}\nPipeline GsCs4 { ComputeShader = gs_cs4; BlendState = { BlendEnabled = true; }; }\n",
            "void gs_cs5() {}\nPipeline GsCs5 { ComputeShader = gs_cs5; BlendState3 = { BlendEnabled = true; }; }\n",
            "void gs_cs6() {}\nPipeline GsCs6 { ComputeShader = gs_cs6; DefaultBindGroup = 9; RenderTargetFormat7 = \"R16_FLOAT\"; }\n",
            "void gs_vs(out float4 p : SV_Position) { p = float4(0, 0, 0, 1); }\nfloat4 gs_ps() : SV_Target0 { return float4(0, 0, 0, 0); }\nPipeline GsOk { VertexShader = gs_vs; PixelShader = gs_ps; DepthTargetFormat = \"D32_FLOAT\"; RenderTargetFormat0 = \"R8G8B8A8_UNORM\"; CullMode = Front; WindingOrder = CounterClockwise; }\nPipeline GsBad { VertexShader = gs_vs; PixelShader = gs_ps; CullMode = Sideways; }\n",
            // names shared between kinds of symbols
            "void fn_then_enumerator() {}\nenum FnE { FNE_A, fn_then_enumerator };\n",
            "enum IntrinsicNames { min, saturate };\n",
            "static int step;\nstatic int uses_step = step;\n",
            "void fn_then_global() {}\nstatic int fn_then_global;\nstatic int uses_ftg = fn_then_global;\n",
            "[[rssl::bindless]] cbuffer BindlessCB { float bcb_a; }\n",
            // methods that are each the first user of another instantiation of one function template
            "template<typename T> T mi_ident(T x) { return x; }\nstruct MiS {\n    float m0() { return mi_ident<float>(1.0); }\n    int m1() { return mi_ident<int>(1); }\n    uint m2() { return mi_ident<uint>(1u); }\n    float2 m4() { return mi_ident<float2>(float2(1.0, 2.0)); }\n    int2 m5() { return mi_ident<int2>(int2(1, 2)); }\n    float3 m6() { return mi_ident<float3>(float3(1.0, 2.0, 3.0)); }\n};\nfloat mi_use() { MiS s; return s.m0() + (float)s.m1() + (float)s.m2() + s.m4().x + (float)s.m5().x + s.m6().x; }\n",
            // a struct with several base types: inherited members keep the order of the base list
            "struct MbA { int mb_a; };\nstruct MbB { float mb_b; };\nstruct MbC { uint mb_c; };\nstruct MbD { float2 mb_d; };\nstruct MbAll : MbA, MbB, MbC, MbD { int mb_own; };\nint mb_f(MbAll s) { return s.mb_a + (int)s.mb_b + (int)s.mb_c + (int)s.mb_d.x + s.mb_own; }\n",
            // untyped literals at the edge of what can be written, as template arguments
            "template<int N> int ce_t() { return N; }\nstatic const int ce_u = ce_t<~18446744073709551615>();\n",
            "template<int N> int ce_t2() { return N; }\nvoid ce_f() { int q = ce_t2<0 - 18446744073709551615 - 1>(); int r = ce_t2<18446744073709551615>(); }\n",
            // a long run of one bracket character
            "static const int ra = 1 >>>>>>>>>>>>>>>>>>>>>>>>>>>>>>>>>>>>>>>>>>>>>>>> 2;\n",
            // two string literals next to each other (not a thing in RSSL today: whatever is
            // decided about them must not depend on what separates them)
            "void str_cs() {}\nPipeline StrP { ComputeShader = str_cs; RenderTargetFormat0 = \"R8G8B8A8\" \"_UNORM\"; }\n",
            // empty braces where a scalar is expected, directly and nested
            "static int eb_a = {};\n",
            "static float2 eb_v = { 1.0, {} };\n",
            "struct EbS { float a; int b; };\nstatic EbS eb_s = { 1.0, {} };\n",
            "void eb_f() { int eb_x = {}; }\nstatic int eb_arr[2] = { {}, 1 };\n",
            // an enum whose names share values, used where the exporters have to pick a name
            "enum AliasMode { AM_Off = 0, AM_Low = 1, AM_Default = 1, AM_High = 2, AM_Max = 2, AM_Ultra = 2 };\nint alias_select(AliasMode m) { switch (m) { case AliasMode::AM_Default: return 1; case AliasMode::AM_Ultra: return 2; default: return 0; } }\nstatic const AliasMode alias_g = AliasMode::AM_Max;\n",
            // a task shader that reaches DispatchMesh with two payload types
            "struct TmPayloadA { uint a; };\nstruct TmPayloadB { float4 b; };\ngroupshared TmPayloadA tm_lds_a;\ngroupshared TmPayloadB tm_lds_b;\nstruct TmVertex { float4 position : SV_Position; };\n[numthreads(64, 1, 1)]\nvoid TmTask(uint3 dtid : SV_DispatchThreadID) { tm_lds_a.a = dtid.x; tm_lds_b.b = float4(0, 0, 0, 0); if (dtid.x == 0) { DispatchMesh(4u, 1u, 1u, tm_lds_a); } else { DispatchMesh(2u, 1u, 1u, tm_lds_b); } }\n[numthreads(64, 1, 1)]\n[outputtopology(\"triangle\")]\nvoid TmMesh(uint3 dtid : SV_DispatchThreadID, in payload TmPayloadA data, out vertices TmVertex o_vertices[64], out indices uint3 o_triangles[64]) { SetMeshOutputCounts(64, 64); TmVertex v; v.position = float4(data.a, 0, 0, 1); o_vertices[dtid.x] = v; o_triangles[dtid.x] = uint3(0, 1, 2); }\nPipeline TmPipeline { TaskShader = TmTask; MeshShader = TmMesh; }\n",
            // sizeof of untyped literals and of vectors made from them
            "static const uint sz_a = sizeof(1.0);\n",
            "static const uint sz_b = sizeof(7.xxx);\n",
            "static const uint sz_c = sizeof((2).xxxx) + sizeof(1.5.xx);\n",
            // names qualified by more than one scope
            "namespace QA { namespace QB { static const int qx = 1; int qg() { return 2; } enum QE { QE0, QE1 }; } namespace QC { static const int qz = QB::qx + QA::QB::qx + ::QA::QB::qx; } }\nstatic const int q_use = QA::QB::qx + QA::QB::qg() + (int)QA::QB::QE::QE1 + QA::QC::qz;\n",
            "namespace QA2 { namespace QB2 { static const int qx = 1; } }\nstatic const int q_bad = QA2::QMissing::qx;\n",
            // an entry point that is only declared
            "void proto_cs();\nPipeline ProtoP { ComputeShader = proto_cs; }\n",
            // a struct template with several instantiations (both exporters answer
            // UnsupportedStructTemplate today: valid input whose export is unfinished)
            "template<typename T>\nstruct TplPair { T first; T second; T sum() { return first + second; } };\nvoid tpl_use() { TplPair<float> pf; TplPair<int> pi; TplPair<uint> pu; TplPair<float2> pf2; pf.first = 1; pi.first = 2; pu.first = 3; pf2.first = float2(4, 5); }\n",
            // stage linking (Metal links the stages of a graphics pipeline by user semantics)
            "void li_vs(uint vid : SV_VertexID, out float4 o_pos : SV_Position, out float2 o_uv : TEXCOORD, out float3 o_nrm : NORMAL, out float4 o_tan : TANGENT, out float o_wet : WETNESS) { o_pos = float4(0, 0, 0, 1); o_uv = float2(0, 0); o_nrm = float3(0, 0, 1); o_tan = float4(1, 0, 0, 1); o_wet = 0; }\nfloat4 li_ps(float4 i_col : COLOUR) : SV_Target0 { return i_col; }\nPipeline LinkMissing { VertexShader = li_vs; PixelShader = li_ps; }\n",
            "void lo_vs(uint vid : SV_VertexID, out float4 o_pos : SV_Position, out float2 o_uv : TEXCOORD, out float3 o_nrm : NORMAL, out float4 o_tan : TANGENT) { o_pos = float4(0, 0, 0, 1); o_uv = float2(0, 0); o_nrm = float3(0, 0, 1); o_tan = float4(1, 0, 0, 1); }\nfloat4 lo_ps(float3 i_nrm : NORMAL, float2 i_uv : TEXCOORD) : SV_Target0 { return float4(i_nrm, i_uv.x); }\nPipeline LinkSubset { VertexShader = lo_vs; PixelShader = lo_ps; }\n",
];

/// One W2 scenario: a program and the configuration to compile it under
pub fn scenario(rng: &mut Rng, i: u64) -> (String, FsSpec, TaskSpec) {
    let (kinds, _) = valid_kinds();
    let target = [Target::Dx, Target::Vk, Target::Msl, Target::Msl][(i % 4) as usize];
    let usable: Vec<&str> = kinds
        .iter()
        .copied()
        .filter(|k| *k != "bind_groups" || target == Target::Vk)
        .collect();
    let src = if usable.is_empty() {
        "void CS0() {}\nPipeline P0 { ComputeShader = CS0; }\n".to_string()
    } else {
        let n = rng.range(2, 6) as usize;
        let mut chosen: Vec<&str> = (0..n).map(|_| pick(rng, &usable)).collect();
        if target == Target::Vk && usable.contains(&"bind_groups") && !chosen.contains(&"bind_groups") {
            chosen.push("bind_groups");
        }
        program(&chosen, &mut rng.sub("program"))
    };
    // A fifth of the programs get a tail: mostly a semantic error whose diagnostic could mention
    // (or choose among) several declarations. The tails take turns (program 4, 9, 14, ...), so
    // that each of them meets every target however many there are.
    let src = if i % 5 == 4 {
        let tails = TAILS;
        let tail = tails[(i / 5) as usize % tails.len()];
        format!("{src}{tail}")
    } else {
        src
    };
    let mut t = TaskSpec::compile(0, "test.rssl", target);
    t.buffer_address = target == Target::Vk;
    t.validate_layout = rng.chance(1, 2);
    match rng.below(6) {
        0 => t.no_pipeline = true,
        1 | 2 => t.pipeline = Some(["P0", "P0", "p0", "P1", "p1"][rng.below(5) as usize].into()),
        _ => {}
    }
    (
        format!("W2:program#{i}@{}", target.name()),
        crate::plan::snippet_fs(&src),
        t,
    )
}

/// Tail `k` alone (with a minimal compute pipeline in front so that pipeline mode has something to
/// build), under target `t`: every tail meets every target whatever else the programs contain
pub fn tail_scenario(k: usize, t: usize) -> (String, FsSpec, TaskSpec) {
    let target = [Target::Dx, Target::Vk, Target::Msl][t % 3];
    // (a tail that brings its own pipeline is compiled as it is)
    let tail = TAILS[k % TAILS.len()];
    let src = if tail.contains("Pipeline ") {
        tail.to_string()
    } else {
        format!("void tail_cs() {{}}\nPipeline TailP {{ ComputeShader = tail_cs; }}\n{tail}")
    };
    let mut task = TaskSpec::compile(0, "test.rssl", target);
    task.buffer_address = target == Target::Vk;
    task.validate_layout = k % 2 == 0;
    (
        format!("W2:tail#{}@{}", k % TAILS.len(), target.name()),
        crate::plan::snippet_fs(&src),
        task,
    )
}
