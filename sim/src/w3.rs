//! Workload W3 (stub, replaced below)
use crate::exec::{Target, TaskSpec};
use crate::prng::Rng;
use crate::simfs::FsSpec;
#[derive(Clone, Copy, PartialEq)]
pub enum Mode { Plain, Hostile }
pub struct Graph { pub fs: FsSpec, pub entry: String }
pub fn generate(_rng: &mut Rng, _mode: Mode) -> Graph {
    Graph { fs: crate::plan::snippet_fs("static const int x = 1;\n"), entry: "test.rssl".into() }
}
pub fn compile_task(g: &Graph, _rng: &mut Rng) -> TaskSpec {
    let mut t = TaskSpec::compile(0, &g.entry, Target::Dx);
    t.no_pipeline = true;
    t
}
