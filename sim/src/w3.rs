//! Workload W3: generated include graphs on a simulated directory tree.
//!
//! The generator writes plain text; the reference model (`model.rs`) reads that text back, so the
//! two share nothing but the file system.

use crate::exec::{Target, TaskSpec};
use crate::prng::Rng;
use crate::simfs::{FsSpec, Policy, dir_of};

#[derive(Clone, Copy, PartialEq, Debug)]
pub enum Mode {
    /// flat unique names: the include string is the file identity
    Plain,
    /// directory tree, relative resolution, aliases, same leaf name in several directories
    Hostile,
}

#[derive(Clone, Copy, PartialEq, Debug)]
pub enum Form {
    /// marker lines are bare token lists: observed through preprocess + prepare_tokens
    Pre,
    /// marker lines are `static const int m = v ;` declarations: observed through compile()
    Compile,
}

#[derive(Clone, Debug)]
pub struct Graph {
    pub fs: FsSpec,
    pub entry: String,
    pub defines: Vec<(String, String)>,
    pub form: Form,
    pub mode: Mode,
}

const MACROS: &[&str] = &["A", "B", "C", "D", "E", "F"];
const PLAIN: &[&str] = &["p", "q", "r"];

fn weighted(rng: &mut Rng, weights: &[u64]) -> usize {
    let total: u64 = weights.iter().sum();
    let mut x = rng.below(total);
    for (i, w) in weights.iter().enumerate() {
        if x < *w {
            return i;
        }
        x -= w;
    }
    weights.len() - 1
}

fn relative(from_dir: &str, to: &str) -> String {
    let f: Vec<&str> = from_dir.split('/').filter(|s| !s.is_empty()).collect();
    let t: Vec<&str> = to.split('/').collect();
    let mut common = 0;
    while common < f.len() && common + 1 < t.len() && f[common] == t[common] {
        common += 1;
    }
    let mut parts: Vec<String> = Vec::new();
    for _ in common..f.len() {
        parts.push("..".into());
    }
    for p in &t[common..] {
        parts.push(p.to_string());
    }
    parts.join("/")
}

fn spell(rng: &mut Rng, mode: Mode, parent: &str, target: &str) -> String {
    if mode == Mode::Plain {
        return target.to_string();
    }
    if rng.chance(1, 60) {
        // include strings no tree answers: they must fail cleanly
        return [
            "",
            "a\\b.h",
            "../../../../x.h",
            "/abs/x.h",
            "x.h ",
            " x.h",
            "x.h/",
            "//x.h",
            "con:",
            "%s%n",
            "x.h\tx.h",
            "\u{e9}.h",
        ][rng.below(12) as usize]
            .to_string();
    }
    if rng.chance(1, 400) {
        return "d/".repeat(1500) + "x.h";
    }
    let rel = relative(dir_of(parent), target);
    let leaf = target.rsplit('/').next().unwrap_or(target).to_string();
    let alias = |p: &str| -> String {
        match p.split_once('/') {
            Some((d, rest)) if d != ".." && d != "." => format!("{d}/../{d}/{rest}"),
            _ => format!("./{p}"),
        }
    };
    match weighted(rng, &[5, 3, 2, 2, 2]) {
        0 => rel,
        1 => target.to_string(),
        2 => format!("./{rel}"),
        3 => alias(&rel),
        _ => leaf,
    }
}

fn atom(rng: &mut Rng, form: Form, own_markers: &[String]) -> String {
    match form {
        Form::Pre => match weighted(rng, &[10, 4, 5, 1, 1]) {
            0 => rng.pick(MACROS).to_string(),
            1 => rng.pick(PLAIN).to_string(),
            2 => rng.range(1, 9).to_string(),
            3 => ["0x10", "007", "0x0a", "00", "0x1f", "010"][rng.below(6) as usize].to_string(),
            _ => FUNCS[rng.below(FUNCS.len() as u64) as usize].0.to_string(),
        },
        Form::Compile => match weighted(rng, &[5, 4, if own_markers.is_empty() { 0 } else { 1 }]) {
            0 => rng.pick(MACROS).to_string(),
            1 => rng.range(1, 9).to_string(),
            _ => rng.pick(own_markers).clone(),
        },
    }
}


/// Function-like macros of the pool: FN<k> always takes k parameters
const FUNCS: &[(&str, usize)] = &[("FN0", 0), ("FN1", 1), ("FN2", 2), ("FN3", 3)];
const PARAMS: &[&str] = &["a", "b", "c"];

/// A use of a function-like macro of the pool with arguments drawn from `leaves` (and, at use
/// sites, nested invocations, parenthesised groups with commas, empty arguments)
fn invocation(rng: &mut Rng, max_index: usize, leaves: &[String], depth: u32) -> String {
    let k = rng.below(max_index as u64 + 1) as usize;
    let (name, arity) = FUNCS[k];
    // rarely the wrong number of arguments: both sides must reject it
    let n = if rng.chance(1, 30) { arity + 1 } else { arity };
    let mut args: Vec<String> = Vec::new();
    for _ in 0..n {
        let a = match weighted(rng, &[6, if depth < 2 { 3 } else { 0 }, 2, 2, 1]) {
            0 => rng.pick(leaves).clone(),
            // the bare name of a function-like macro: only an invocation once the body it is
            // substituted into supplies the parentheses
            4 => FUNCS[rng.below(FUNCS.len() as u64) as usize].0.to_string(),
            1 => invocation(rng, max_index, leaves, depth + 1),
            2 => format!("( {} , {} )", rng.pick(leaves), rng.pick(leaves)),
            _ => String::new(),
        };
        args.push(a);
    }
    let sp = match rng.below(12) {
        0..=2 => " ",
        // (a comment is white space: the invocation stands)
        3 => " /* c */ ",
        4 => "/**/",
        _ => "",
    };
    let second = if depth == 0 && rng.chance(1, 4) {
        match rng.below(3) {
            0 => "()".to_string(),
            1 => format!("({})", rng.pick(leaves)),
            _ => format!(" ({}, {})", rng.pick(leaves), rng.pick(leaves)),
        }
    } else {
        String::new()
    };
    // an argument list may span lines (never the gap between the name and its "(")
    let sep = if depth == 0 && rng.chance(1, 6) {
        ",\n    "
    } else if rng.chance(1, 2) {
        ", "
    } else {
        ","
    };
    let open = if depth == 0 && rng.chance(1, 12) { "(\n  " } else { "(" };
    let close = if depth == 0 && rng.chance(1, 12) { "\n)" } else { ")" };
    format!("{name}{sp}{open}{}{close}{second}", args.join(sep))
}

/// `#define FNk(params) body`: the body refers to its parameters, ints, plain identifiers,
/// object-like pool names, function-like macros of lower index, and rarely to itself (top level)
fn function_define(rng: &mut Rng) -> String {
    let k = rng.below(FUNCS.len() as u64) as usize;
    let (name, arity) = FUNCS[k];
    let params: Vec<String> = PARAMS[..arity].iter().map(|s| s.to_string()).collect();
    let mut leaves: Vec<String> = params.clone();
    leaves.push(rng.range(1, 9).to_string());
    leaves.push(rng.pick(PLAIN).to_string());
    let mut body: Vec<String> = Vec::new();
    for _ in 0..rng.range(1, 4) {
        let e = match weighted(rng, &[5, 2, 2, if k > 0 { 3 } else { 0 }, 1]) {
            0 => rng.pick(&leaves).clone(),
            1 => rng.pick(MACROS).to_string(),
            2 => format!("( {} + {} )", rng.pick(&leaves), rng.pick(&leaves)),
            3 => invocation(rng, k - 1, &leaves, 2),
            _ if k > 0 && rng.chance(1, 2) => {
                // its own invocation as the argument of a lower macro
                let (lower, la) = FUNCS[rng.range(1, k as u64) as usize];
                let own = format!("{name}({})", params.join(","));
                let mut args: Vec<String> = (0..la).map(|_| rng.pick(&leaves).clone()).collect();
                if la > 0 {
                    args[0] = own.clone();
                }
                if lower == name { own } else { format!("{lower}({})", args.join(",")) }
            }
            _ => format!("{name}({})", params.join(",")),
        };
        body.push(e);
    }
    let mut text = body.join(" + ");
    if arity == 1 && rng.chance(1, 10) {
        return format!("#define {name}(a) defined a");
    }
    if arity >= 2 && rng.chance(1, 6) {
        // nothing but parameters and punctuation: the invocation only exists after substitution
        text = match rng.below(3) {
            0 => "a(b)".to_string(),
            1 => "a b".to_string(),
            _ => "a ( b ) + 1".to_string(),
        };
        return format!("#define {name}({}) {}", params.join(","), text);
    }
    if k > 0 && rng.chance(1, 4) {
        // a replacement that ends in the name of a function-like macro: the invocation is
        // completed by a "(" that follows the use
        let (lower, _) = FUNCS[rng.below(k as u64) as usize];
        let tail = if rng.chance(1, 2) && arity > 0 { " a" } else { "" };
        text = format!("{text} + {lower}{tail}");
    }
    format!("#define {name}({}) {}", params.join(","), text)
}

fn condition(rng: &mut Rng) -> String {
    let m = rng.pick(MACROS);
    if rng.chance(1, 40) {
        // `defined` produced by macro replacement: C leaves it undefined, the model does not
        // judge it - it must not bring the compiler down
        let (f, _) = FUNCS[1];
        return [
            format!("#if {f}({m})"),
            format!("#if {f}({m}) && defined({m})"),
            format!("#if HAS_{m}"),
        ][rng.below(3) as usize]
            .clone();
    }
    if rng.chance(1, 40) {
        // arithmetic in conditions is outside what the preprocessor (and the model) accept today;
        // it must be rejected, never crash
        return [
            format!("#if {m} - 1 > 0"),
            "#if 1 - 2".to_string(),
            format!("#if {m} + 18446744073709551615"),
            format!("#if ({m} - 1) == 0"),
            format!("#if {m} * 2"),
            format!("#if 1 << 70"),
            format!("#if {m} / 0"),
            format!("#if -{m}"),
        ][rng.below(8) as usize]
            .clone();
    }
    match weighted(rng, &[1, 2, 3, 3, 2, 3, 3]) {
        0 => "#if 0".to_string(),
        1 => "#if 1".to_string(),
        2 => format!("#if {m}"),
        3 => format!("#if defined({m})"),
        4 => format!("#if !defined({m})"),
        5 => format!("#ifdef {m}"),
        _ => format!("#ifndef {m}"),
    }
}

fn elif(rng: &mut Rng) -> String {
    let m = rng.pick(MACROS);
    match weighted(rng, &[1, 2, 4]) {
        0 => "#elif 0".to_string(),
        1 => "#elif 1".to_string(),
        _ => format!("#elif defined({m})"),
    }
}

fn hash(rng: &mut Rng, directive: &str) -> String {
    // `#x`, `# x`, `  #x`
    let body = directive.strip_prefix('#').unwrap_or(directive);
    // ... and with a comment in front of the "#" on the same line (a comment is white space)
    // (only one-line comments: a comment that starts on an earlier line would make "the line
    // the construct starts on" a question the k-line shift of C14 has no answer to)
    match weighted(rng, &[16, 2, 2, 1, 1]) {
        0 => format!("#{body}"),
        1 => format!("# {body}"),
        2 => format!("  #{body}"),
        3 => format!("/* c */ #{body}"),
        _ => format!("/* a */ /* b */  # {body}"),
    }
}

/// A small error-free tree in which one include names a leaf that exists beside two or three
/// files loaded earlier, but neither beside the includer nor at the root: the request must fail,
/// and fail the same way, however the loader keeps track of the files it has seen
fn dangling_leaf_graph(rng: &mut Rng, form: Form) -> Graph {
    let dirs = ["a", "b", "a/c", "inc"];
    let leaf = ["x.h", "cfg.h", "limits.h"][rng.below(3) as usize];
    let k = rng.range(2, 3) as usize;
    let mut chosen: Vec<&str> = dirs.to_vec();
    rng.shuffle(&mut chosen);
    chosen.truncate(k);
    let mut fs = FsSpec::new(Policy::ParentRelative);
    let mut main = String::new();
    let marker = |name: &str, v: u64| match form {
        Form::Pre => format!("{name} {v} ;\n"),
        Form::Compile => format!("static const int {name} = {v} ;\n"),
    };
    // half of the trees reach the leaves through a sibling, so that the very spelling that
    // dangles in the entry file has been answered before - once per directory
    let through_sibling = rng.chance(1, 2);
    for (i, d) in chosen.iter().enumerate() {
        fs.files.insert(format!("{d}/{leaf}"), marker(&format!("m_{}_1", i + 1), i as u64 + 1));
        if through_sibling {
            fs.files.insert(
                format!("{d}/use.h"),
                format!("#include \"{leaf}\"\n{}", marker(&format!("m_{}_2", i + 1), i as u64 + 11)),
            );
            main.push_str(&format!("#include \"{d}/use.h\"\n"));
        } else {
            main.push_str(&format!("#include \"{d}/{leaf}\"\n"));
        }
    }
    main.push_str(&marker("m_0_1", 9));
    main.push_str(&format!("#include \"{leaf}\"\n"));
    main.push_str(&marker("m_0_2", 8));
    fs.files.insert("main.rssl".into(), main);
    Graph {
        fs,
        entry: "main.rssl".into(),
        defines: Vec::new(),
        form,
        mode: Mode::Hostile,
    }
}

/// The same header, byte for byte, vendored into two or three directories, each copy with
/// `#pragma once`, each included (once or twice) under a different definition of a macro it uses:
/// every *file* contributes once - files are told apart by where they are, not by what is in them
fn twin_files_graph(rng: &mut Rng, form: Form) -> Graph {
    let dirs = ["a", "b", "third_party/x", "inc"];
    let mut chosen: Vec<&str> = dirs.to_vec();
    rng.shuffle(&mut chosen);
    chosen.truncate(rng.range(2, 3) as usize);
    let body = match form {
        Form::Pre => "#pragma once\nm_twin TWIN_ARG ;\n".to_string(),
        Form::Compile => "#pragma once\nstatic const int TWIN_ARG = 1 ;\n".to_string(),
    };
    let mut fs = FsSpec::new(if rng.chance(1, 2) { Policy::ParentRelative } else { Policy::Flat });
    let mut main = String::new();
    for (i, d) in chosen.iter().enumerate() {
        fs.files.insert(format!("{d}/twin.h"), body.clone());
        main.push_str(&format!("#define TWIN_ARG m_twin_{i}\n#include \"{d}/twin.h\"\n"));
        if rng.chance(1, 2) {
            main.push_str(&format!("#include \"{d}/twin.h\"\n"));
        }
        main.push_str("#undef TWIN_ARG\n");
    }
    main.push_str(match form {
        Form::Pre => "m_0_1 9 ;\n",
        Form::Compile => "static const int m_0_1 = 9 ;\n",
    });
    fs.files.insert("main.rssl".into(), main);
    Graph {
        fs,
        entry: "main.rssl".into(),
        defines: Vec::new(),
        form,
        mode: Mode::Hostile,
    }
}

pub fn generate(rng: &mut Rng, mode: Mode, form: Form) -> Graph {
    if mode == Mode::Hostile && rng.chance(1, 16) {
        return dangling_leaf_graph(rng, form);
    }
    if mode == Mode::Hostile && rng.chance(1, 24) {
        return twin_files_graph(rng, form);
    }
    let n = [2usize, 3, 4, 5, 6, 7, 8][weighted(rng, &[3, 4, 4, 3, 2, 1, 1])];

    // paths
    let mut paths: Vec<String> = Vec::new();
    match mode {
        Mode::Plain => {
            paths.push("main.rssl".into());
            for i in 1..n {
                paths.push(format!("f{i}.h"));
            }
        }
        Mode::Hostile => {
            paths.push(if rng.chance(1, 3) {
                "src/main.rssl".into()
            } else {
                "main.rssl".into()
            });
            let dirs = ["", "a", "b", "a/c", "src"];
            let leaves = ["x.h", "y.h", "z.h", "c.h"];
            for i in 1..n {
                let mut chosen = None;
                for _ in 0..8 {
                    let d = *rng.pick(&dirs);
                    let l = *rng.pick(&leaves);
                    let p = if d.is_empty() {
                        l.to_string()
                    } else {
                        format!("{d}/{l}")
                    };
                    if !paths.contains(&p) {
                        chosen = Some(p);
                        break;
                    }
                }
                paths.push(chosen.unwrap_or_else(|| format!("f{i}.h")));
            }
        }
    }
    let policy = match mode {
        Mode::Plain => Policy::Flat,
        Mode::Hostile => match weighted(rng, &[4, 1, 1]) {
            0 => Policy::ParentRelative,
            1 => Policy::SearchPath(vec!["a".into()]),
            _ => Policy::SearchPath(vec!["b".into(), "a/c".into()]),
        },
    };

    // include edges: a DAG plus at most one back edge
    let mut edges: Vec<Vec<usize>> = vec![Vec::new(); n];
    for (i, e) in edges.iter_mut().enumerate() {
        if i + 1 >= n {
            break;
        }
        let k = [0usize, 1, 1, 2, 2, 3][rng.below(6) as usize];
        for _ in 0..k {
            e.push(rng.range(i as u64 + 1, n as u64 - 1) as usize);
        }
    }
    if edges[0].is_empty() && n > 1 {
        edges[0].push(1);
    }
    if rng.chance(1, 6) {
        let from = rng.below(n as u64) as usize;
        let to = rng.below(from as u64 + 1) as usize;
        edges[from].push(to);
    }

    let mut last_defines: Vec<usize> = Vec::new();
    // a dangling include: a leaf name that exists beside two or more other files but neither
    // beside the includer nor at the root - it must fail the same way every time
    let mut dangling: Option<(usize, String)> = None;
    if mode == Mode::Hostile && rng.chance(1, 3) {
        let leaf_of = |p: &str| p.rsplit('/').next().unwrap_or(p).to_string();
        for cand in &paths[1..] {
            let leaf = leaf_of(cand);
            let dirs: Vec<&str> = paths
                .iter()
                .filter(|p| leaf_of(p) == leaf)
                .map(|p| dir_of(p))
                .collect();
            if dirs.len() >= 2 && !dirs.contains(&"") {
                // preferably the entry file, at its end, when most files have been loaded
                if let Some(i) = (0..n).find(|i| !dirs.contains(&dir_of(&paths[*i]))) {
                    dangling = Some((i, leaf));
                    break;
                }
            }
        }
    }

    // an #if that opens in a header and closes in the includer (paste semantics)
    let split_chain: Option<(usize, usize)> = if rng.chance(1, 12) {
        let from = rng.below(n as u64) as usize;
        edges[from].first().map(|to| (from, *to))
    } else {
        None
    };

    // rarely: one file includes the same header more than 200 times in a row
    let repeat_in: Option<usize> = if rng.chance(1, 40) {
        Some(rng.below(n as u64) as usize)
    } else {
        None
    };
    let cat_prelude = rng.chance(1, 2) || form == Form::Compile && rng.chance(1, 2);
    // half of the graphs use function-like macros
    let funcs = rng.chance(1, 2);
    let mut fs = FsSpec::new(policy);

    for i in 0..n {
        let mut lines: Vec<String> = Vec::new();
        let protect_weights = match (i, form) {
            (0, _) => [9, 1, 0],
            (_, Form::Compile) => [1, 4, 4],
            (_, Form::Pre) => [3, 3, 3],
        };
        let protection = weighted(rng, &protect_weights);
        if i == 0 && cat_prelude {
            lines.push("#define CAT(a,b) a##b".into());
        }
        if i == 0 && form == Form::Pre && funcs && rng.chance(2, 3) {
            // most uses of the function-like pool should meet a definition
            for _ in 0..rng.range(2, 5) {
                lines.push(function_define(rng));
            }
        }
        if i == 0 && form == Form::Compile && rng.chance(4, 5) {
            // most compile-form programs should be valid: start with every macro defined
            for m in MACROS {
                lines.push(format!("#define {m} {}", rng.range(1, 9)));
            }
        }
        match protection {
            1 => lines.push(hash(rng, "#pragma once")),
            2 => {
                lines.push(format!("#ifndef G_{i}"));
                lines.push(format!("#define G_{i}"));
            }
            _ => {}
        }

        let slots = rng.range(3, 10) as usize;
        let mut inc_at: Vec<(usize, usize)> = edges[i]
            .iter()
            .map(|t| (rng.below(slots as u64) as usize, *t))
            .collect();
        inc_at.sort();
        let mut open: Vec<bool> = Vec::new(); // has_else per open #if
        let mut own_markers: Vec<String> = Vec::new();
        let mut counter = 0;
        for slot in 0..slots {
            for (_, t) in inc_at.iter().filter(|(s, _)| *s == slot) {
                let s = spell(rng, mode, &paths[i], &paths[*t]);
                let quoted = if rng.chance(1, 5) {
                    format!("<{s}>")
                } else {
                    format!("\"{s}\"")
                };
                lines.push(hash(rng, &format!("#include {quoted}")));
                if split_chain == Some((i, *t)) {
                    lines.push("#endif".into());
                }
            }
            let w = [
                16,
                6,
                2,
                if open.len() < 3 { 4 } else { 0 },
                if open.last() == Some(&false) { 2 } else { 0 },
                if open.last() == Some(&false) { 2 } else { 0 },
                if !open.is_empty() { 4 } else { 0 },
                2,
                if form == Form::Pre { 2 } else { 0 },
                // #pragma once anywhere, also inside conditional regions
                1,
                // a name of the macro pool (re)defined as the function-like paste macro, and
                // uses of pool names with an argument list
                if form == Form::Pre { 1 } else { 0 },
                if form == Form::Pre { 2 } else { 0 },
                // a line that starts with a pasted token
                if form == Form::Pre { 1 } else { 0 },
                // a declaration whose name is pasted together (compile form)
                if form == Form::Compile { 1 } else { 0 },
                // function-like macros: definitions and uses
                if form == Form::Pre && funcs { 3 } else { 0 },
                if form == Form::Pre && funcs { 5 } else { 0 },
                // a name redefined with another signature and the very same replacement list
                if form == Form::Pre && funcs { 1 } else { 0 },
            ];
            match weighted(rng, &w) {
                0 => {
                    counter += 1;
                    let name = format!("m_{i}_{counter}");
                    match form {
                        Form::Pre => {
                            let k = rng.range(1, 3);
                            let vals: Vec<String> =
                                (0..k).map(|_| atom(rng, form, &own_markers)).collect();
                            lines.push(format!("{name} {} ;", vals.join(" ")));
                        }
                        Form::Compile => {
                            let a = atom(rng, form, &own_markers);
                            let expr = if rng.chance(1, 3) {
                                format!("{a} + {}", atom(rng, form, &own_markers))
                            } else {
                                a
                            };
                            lines.push(format!("static const int {name} = {expr} ;"));
                            own_markers.push(name);
                        }
                    }
                }
                1 => {
                    let m = rng.pick(MACROS);
                    let body = match form {
                        Form::Pre => {
                            let k = [0usize, 1, 1, 1, 2][rng.below(5) as usize];
                            (0..k)
                                .map(|_| atom(rng, form, &[]))
                                .collect::<Vec<_>>()
                                .join(" ")
                        }
                        Form::Compile => match weighted(rng, &[14, 5, 1]) {
                            0 => rng.range(1, 9).to_string(),
                            1 => rng.pick(MACROS).to_string(),
                            _ => String::new(),
                        },
                    };
                    // rarely the macro hands its own name (or the name of a macro that refers
                    // back to it) to a function-like macro: replacement must still terminate
                    let body = if rng.chance(1, 12) {
                        let (f, arity) = FUNCS[rng.range(1, FUNCS.len() as u64 - 1) as usize];
                        let mut args: Vec<String> = (0..arity)
                            .map(|_| match rng.below(3) {
                                0 => rng.pick(MACROS).to_string(),
                                1 => rng.range(1, 9).to_string(),
                                _ => rng.pick(PLAIN).to_string(),
                            })
                            .collect();
                        let at = rng.below(arity as u64) as usize;
                        args[at] = m.to_string();
                        match form {
                            Form::Pre if rng.chance(1, 2) => format!("{} {f}({})", rng.range(1, 9), args.join(",")),
                            _ => format!("{f}({})", args.join(", ")),
                        }
                    } else {
                        body
                    };
                    lines.push(hash(rng, format!("#define {m} {body}").trim_end()));
                    if rng.chance(1, 30) {
                        lines.push(format!("#define HAS_{m} defined({m})"));
                    }
                }
                2 => {
                    if rng.chance(1, 8) {
                        // forget the guard of one of the files: it contributes again when included
                        let g = rng.below(n as u64);
                        lines.push(hash(rng, &format!("#undef G_{g}")));
                        if let Some(t) = edges[i].first() {
                            let sp = spell(rng, mode, &paths[i], &paths[*t]);
                            lines.push(format!("#include \"{sp}\""));
                        }
                    } else {
                        let m = *rng.pick(MACROS);
                        lines.push(hash(rng, &format!("#undef {m}")))
                    }
                }
                3 => {
                    let c = condition(rng);
                    lines.push(hash(rng, &c));
                    open.push(false);
                }
                4 => {
                    lines.push(hash(rng, "#else"));
                    *open.last_mut().unwrap() = true;
                }
                5 => {
                    let c = elif(rng);
                    lines.push(hash(rng, &c))
                }
                6 => {
                    lines.push(hash(rng, "#endif"));
                    open.pop();
                }
                7 => {
                    let l = match rng.below(8) {
                        6 => format!("// {}", multibyte_text(rng)),
                        7 => format!("/* {} */", multibyte_text(rng)),
                        k => [
                            "",
                            "// comment",
                            "/* comment */",
                            "   ",
                            "// \u{2500}\u{2500}\u{2500} helpers \u{2500}\u{2500}\u{2500}",
                            "/* \u{a9} 2023 */",
                        ][k as usize]
                            .to_string(),
                    };
                    lines.push(l);
                }
                9 => lines.push(hash(rng, "#pragma once")),
                10 => {
                    let m = *rng.pick(MACROS);
                    lines.push(hash(rng, &format!("#define {m}(a,b) a##b")));
                }
                11 => {
                    counter += 1;
                    let m = *rng.pick(MACROS);
                    let l = ["u", "v", "w"][rng.below(3) as usize];
                    let r = rng.range(1, 9);
                    lines.push(format!("m_{i}_{counter} {m}({l},{r}) ;"));
                }
                12 => {
                    let l = ["u", "v", "w"][rng.below(3) as usize];
                    if rng.chance(1, 4) {
                        let (a, b) = [("ret", "urn"), ("tr", "ue"), ("ino", "ut"), ("str", "uct")][rng.below(4) as usize];
                        lines.push(format!("CAT({a},{b}) m_{i}_x ;"));
                    } else {
                        lines.push(format!("CAT({l},{}) m_{i}_x ;", rng.range(1, 9)));
                    }
                }
                13 => {
                    counter += 1;
                    if rng.chance(1, 4) {
                        // a paste that spells a keyword is that keyword
                        let (a, b) = [("sta", "tic"), ("st", "atic"), ("s", "tatic")][rng.below(3) as usize];
                        lines.push(format!(
                            "CAT({a},{b}) const int mk_{i}_k{counter} = {} ;",
                            rng.range(1, 9)
                        ));
                    } else if rng.chance(1, 4) {
                        let (a, b) = [("con", "st"), ("c", "onst")][rng.below(2) as usize];
                        lines.push(format!(
                            "static CAT({a},{b}) int mk_{i}_k{counter} = {} ;",
                            rng.range(1, 9)
                        ));
                    } else {
                        lines.push(format!(
                            "static const int CAT(mk_{i}_,{counter}) = {} ;",
                            rng.range(1, 9)
                        ));
                    }
                }
                14 => {
                    let d = function_define(rng);
                    lines.push(hash(rng, &d));
                }
                15 => {
                    counter += 1;
                    let leaves: Vec<String> = vec![
                        rng.range(1, 9).to_string(),
                        rng.pick(PLAIN).to_string(),
                        rng.pick(MACROS).to_string(),
                        rng.pick(PLAIN).to_string(),
                    ];
                    let inv = invocation(rng, FUNCS.len() - 1, &leaves, 0);
                    let tail = if rng.chance(1, 3) {
                        format!(" + {}", invocation(rng, FUNCS.len() - 1, &leaves, 1))
                    } else {
                        String::new()
                    };
                    lines.push(format!("m_{i}_{counter} {inv}{tail} ;"));
                }
                16 => {
                    // `#define N(a) body` ... `#define N(a,b) body` (or object-like <-> `N()`):
                    // the later definition counts although its replacement list reads the same
                    counter += 1;
                    let n = format!("SIG_{i}_{counter}");
                    let body = [format!("a + {}", rng.range(1, 9)), "( a )".to_string(), "a".to_string()]
                        [rng.below(3) as usize]
                        .clone();
                    let flat = rng.range(1, 9).to_string();
                    let (d1, u1, d2, u2) = match rng.below(4) {
                        0 => (format!("{n}(a) {body}"), format!("{n}(2)"), format!("{n}(a,b) {body}"), format!("{n}(3,4)")),
                        1 => (format!("{n}(a,b) {body}"), format!("{n}(2,3)"), format!("{n}(a) {body}"), format!("{n}(4)")),
                        2 => (format!("{n} {flat}"), n.clone(), format!("{n}() {flat}"), format!("{n}()")),
                        _ => (format!("{n}() {flat}"), format!("{n}()"), format!("{n} {flat}"), format!("{n} ( )")),
                    };
                    lines.push(hash(rng, &format!("#define {d1}")));
                    lines.push(format!("m_{i}_{counter}a {u1} ;"));
                    lines.push(hash(rng, &format!("#define {d2}")));
                    lines.push(format!("m_{i}_{counter}b {u2} ;"));
                }
                8 => {
                    counter += 1;
                    let r = match rng.below(5) {
                        0 | 1 => ["u", "v", "w"][rng.below(3) as usize].to_string(),
                        2 | 3 => rng.range(1, 9).to_string(),
                        _ => ["0x10", "007", "0x0a", "00", "0x1f"][rng.below(5) as usize].to_string(),
                    };
                    let l = ["u", "v", "w"][rng.below(3) as usize];
                    if rng.chance(1, 5) {
                        // two literals: the replacement holds no identifier at all
                        lines.push(format!("m_{i}_{counter} CAT({},{}) ;", rng.range(1, 99), rng.range(0, 99)));
                    } else {
                        lines.push(format!("m_{i}_{counter} CAT({l},{r}) ;"));
                    }
                }
                _ => {}
            }
        }
        if repeat_in == Some(i)
            && let Some(t) = edges[i].first()
        {
            let sp = spell(rng, mode, &paths[i], &paths[*t]);
            for _ in 0..rng.range(203, 230) {
                lines.push(format!("#include \"{sp}\""));
            }
        }
        // includes scheduled past the last slot cannot exist; close what is open
        let leave_open = rng.chance(1, 25);
        while let Some(_e) = open.pop() {
            if leave_open && open.is_empty() {
                break;
            }
            lines.push("#endif".into());
        }
        if let Some((_, to)) = split_chain
            && to == i
            && i != 0
        {
            lines.push(condition(rng));
        }
        if protection == 2 {
            // a guard may have an #else: what the file contributes from its second inclusion on
            if rng.chance(1, 4) {
                lines.push("#else".into());
                lines.push(match form {
                    Form::Pre => format!("m_{i}_again {} ;", rng.range(1, 9)),
                    Form::Compile => format!("static const int m_{i}_again{} = 1 ;", rng.range(1, 3)),
                });
            }
            lines.push("#endif".into());
        }
        if let Some((di, leaf)) = &dangling
            && *di == i
        {
            // the files of that name are loaded first (by their full paths), so that a resolver
            // with a fallback over "files seen so far" has several candidates
            if i == 0 {
                for p in paths.iter().filter(|p| p.rsplit('/').next() == Some(leaf.as_str())) {
                    lines.push(format!("#include \"{p}\""));
                }
            }
            lines.push(format!("#include \"{leaf}\""));
        }
        let mut text = lines.join("\n");
        if !rng.chance(1, 8) {
            text.push('\n');
        }
        if rng.chance(1, 60) {
            text.push_str("/* a comment that never ends\n");
        } else if i > 0 && rng.chance(1, 12) && text.ends_with('\n') {
            // the file ends in a continued directive: backslash, line end, end of file
            text.push_str(&format!("#define LAST_{i} {} \\\n", rng.range(1, 9)));
            last_defines.push(i);
        }
        fs.files.insert(paths[i].clone(), text);
    }

    // uses of the defines that end files with a continued line
    if !last_defines.is_empty()
        && let Some(body) = fs.files.get_mut(&paths[0])
    {
        if !body.ends_with('\n') {
            body.push('\n');
        }
        for i in &last_defines {
            body.push_str(&match form {
                Form::Pre => format!("m_0_last{i} LAST_{i} ;\n"),
                Form::Compile => format!("#ifdef LAST_{i}\nstatic const int m_0_last{i} = LAST_{i} ;\n#endif\n"),
            });
        }
    }

    // `defined` that only appears through a macro written in an included file, used by the
    // includer: undefined in C (the model does not judge it), but it must not bring the compiler
    // down - the tokens of one condition then come from two files
    if rng.chance(1, 16)
        && let Some(i) = (0..n).find(|i| !edges[*i].is_empty())
    {
        let t = edges[i][0];
        if t != i {
            let m = *rng.pick(MACROS);
            let (f, _) = FUNCS[1];
            let form_line = match rng.below(3) {
                0 => format!("#define {f}(a) defined a\n"),
                1 => format!("#define {f}(a) defined(a)\n"),
                _ => format!("#define {f}(a) ! defined a\n"),
            };
            if let Some(body) = fs.files.get_mut(&paths[t]) {
                body.insert_str(0, &form_line);
            }
            if let Some(body) = fs.files.get_mut(&paths[i]) {
                if !body.ends_with('\n') {
                    body.push('\n');
                }
                body.push_str(&format!("#if {f}({m})\n#endif\n#if {f} ( {m} ) && 1\n#endif\n"));
            }
        }
    }

    // API-level defines
    let nd = [0usize, 0, 1, 1, 2, 3][rng.below(6) as usize];
    let mut names: Vec<&str> = MACROS.to_vec();
    rng.shuffle(&mut names);
    let mut defines = Vec::new();
    for name in names.iter().take(nd) {
        let v = match form {
            Form::Pre => match weighted(rng, &[6, 4, 2, 2, 4, 3]) {
                0 => rng.range(0, 9).to_string(),
                1 => rng.pick(PLAIN).to_string(),
                2 => String::new(),
                3 => format!("{} {}", rng.pick(PLAIN), rng.range(1, 9)),
                4 => rng.pick(MACROS).to_string(),
                // a value that invokes a function-like macro of the file (sometimes with the
                // wrong number of arguments: the expansion fails when the define is used)
                _ => {
                    let leaves: Vec<String> =
                        vec![rng.range(1, 9).to_string(), rng.pick(PLAIN).to_string()];
                    invocation(rng, FUNCS.len() - 1, &leaves, 2)
                }
            },
            Form::Compile => match weighted(rng, &[5, 1, 2, 1]) {
                0 => rng.range(0, 9).to_string(),
                1 => String::new(),
                2 => rng.pick(MACROS).to_string(),
                _ => "1 + 2".to_string(),
            },
        };
        defines.push((name.to_string(), v));
    }
    // a name may be given twice: like two #define lines, the later value counts
    if defines.len() >= 2 && rng.chance(1, 6) {
        let (name, _) = defines[0].clone();
        let last = defines.len() - 1;
        defines[last].0 = name;
    }

    Graph {
        fs,
        entry: paths[0].clone(),
        defines,
        form,
        mode,
    }
}

pub fn compile_task(g: &Graph, rng: &mut Rng) -> TaskSpec {
    let target = *rng.pick(&[Target::Dx, Target::Vk, Target::Msl]);
    let mut t = TaskSpec::compile(0, &g.entry, target);
    t.no_pipeline = true;
    t.defines = g.defines.clone();
    t
}

pub fn preprocess_task(g: &Graph) -> TaskSpec {
    let mut t = TaskSpec::preprocess(0, &g.entry);
    t.defines = g.defines.clone();
    t
}

/// Words of two- and three-byte characters: over many draws every UTF-8 continuation byte
/// (0x80-0xBF) and every lead byte of those lengths occurs, at every alignment
pub fn multibyte_text(rng: &mut Rng) -> String {
    let mut out = String::new();
    for w in 0..rng.range(1, 5) {
        if w > 0 {
            out.push(' ');
        }
        for _ in 0..rng.range(1, 7) {
            let c = match rng.below(4) {
                0 => rng.range(0xA1, 0xFF),
                1 => rng.range(0x100, 0x7FF),
                2 => rng.range(0x3041, 0x30FE),
                _ => rng.range(0x4E00, 0x9FFF),
            };
            out.push(char::from_u32(c as u32).unwrap_or('\u{e9}'));
        }
    }
    out
}
