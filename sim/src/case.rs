//! A case is the literal, self-contained description of one simulated experiment: the file
//! trees, the executions (threads, tasks, hash keys, faults, schedule) and the oracle to apply.
//! Replay files and the minimiser work on this description only; every expectation an oracle
//! needs is derived from it, never stored in it.

use crate::exec::{ExecSpec, TaskResult};
use crate::json::Json;
use crate::simfs::FsSpec;
use std::collections::{BTreeMap, BTreeSet};

#[derive(Clone, Debug, PartialEq)]
pub struct Case {
    pub check: String,
    pub kind: String,
    pub label: String,
    pub fss: Vec<FsSpec>,
    pub execs: Vec<ExecSpec>,
    pub params: Json,
}

impl Case {
    pub fn to_json(&self) -> Json {
        Json::obj()
            .with("check", Json::s(&self.check))
            .with("kind", Json::s(&self.kind))
            .with("label", Json::s(&self.label))
            .with("fss", Json::Arr(self.fss.iter().map(|f| f.to_json()).collect()))
            .with(
                "execs",
                Json::Arr(self.execs.iter().map(|e| e.to_json()).collect()),
            )
            .with("params", self.params.clone())
    }

    pub fn from_json(j: &Json) -> Result<Case, String> {
        let mut fss = Vec::new();
        for f in j.ga("fss") {
            fss.push(FsSpec::from_json(f)?);
        }
        let mut execs = Vec::new();
        for e in j.ga("execs") {
            execs.push(ExecSpec::from_json(e)?);
        }
        Ok(Case {
            check: j.gs("check"),
            kind: j.gs("kind"),
            label: j.gs("label"),
            fss,
            execs,
            params: j.get("params").cloned().unwrap_or(Json::obj()),
        })
    }

    /// Short description for evidence samples (file contents elided)
    pub fn summary(&self) -> Json {
        let mut j = self.to_json();
        if let Some(Json::Arr(fss)) = j.get_mut("fss") {
            for fs in fss {
                if let Some(Json::Obj(files)) = fs.get_mut("files") {
                    for (_, v) in files.iter_mut() {
                        if let Json::Str(s) = v
                            && s.len() > 200
                        {
                            *v = Json::s(&format!(
                                "<{} bytes, fnv {:016x}>",
                                s.len(),
                                crate::prng::fnv64(s.as_bytes())
                            ));
                        }
                    }
                }
            }
        }
        j
    }
}

#[derive(Clone, Debug, PartialEq)]
pub struct Finding {
    pub property: String,
    /// violation class, e.g. "nondeterministic-output", "panic", "abort", "hang", "refinement"
    pub class: String,
    /// what identifies "the same violation" for minimisation and known-finding matching
    pub fingerprint: String,
    pub detail: String,
}

impl Finding {
    pub fn to_json(&self) -> Json {
        Json::obj()
            .with("property", Json::s(&self.property))
            .with("class", Json::s(&self.class))
            .with("fingerprint", Json::s(&self.fingerprint))
            .with("detail", Json::s(&self.detail))
    }
    pub fn from_json(j: &Json) -> Finding {
        Finding {
            property: j.gs("property"),
            class: j.gs("class"),
            fingerprint: j.gs("fingerprint"),
            detail: j.gs("detail"),
        }
    }
}

/// What one case contributed, for aggregation into the evidence file
#[derive(Clone, Debug, Default)]
pub struct Report {
    pub findings: Vec<Finding>,
    pub cases: u64,
    /// rssl API calls made
    pub evals: u64,
    pub loads: u64,
    pub allocs: u64,
    pub fired: BTreeMap<String, u64>,
    pub outcomes: BTreeMap<String, u64>,
    /// identities of distinct scenarios that did something beyond the fault-free single run
    pub nontrivial: BTreeSet<u64>,
    pub scenario_digests: BTreeSet<u64>,
    pub history_digests: BTreeSet<u64>,
    pub canaries: BTreeSet<String>,
    pub interleavings: BTreeSet<u64>,
    /// probe site -> (iterations, iterations with >= 2 elements, scenario-runs where >= 2 orders were seen)
    pub probes: BTreeMap<String, (u64, u64, u64)>,
    pub counters: BTreeMap<String, u64>,
    pub samples: Vec<Json>,
    pub notes: BTreeSet<String>,
}

impl Report {
    pub fn count(&mut self, name: &str, n: u64) {
        *self.counters.entry(name.to_string()).or_insert(0) += n;
    }

    pub fn absorb_task(&mut self, r: &TaskResult) {
        self.evals += 1;
        self.loads += r.events.len() as u64;
        self.allocs += r.allocs;
        *self.outcomes.entry(r.kind_name().to_string()).or_insert(0) += 1;
        for e in &r.events {
            for f in &e.fired {
                *self.fired.entry(f.to_string()).or_insert(0) += 1;
            }
        }
        self.canaries.insert(r.canary.clone());
    }

    pub fn merge(&mut self, o: Report) {
        self.findings.extend(o.findings);
        self.cases += o.cases;
        self.evals += o.evals;
        self.loads += o.loads;
        self.allocs += o.allocs;
        for (k, v) in o.fired {
            *self.fired.entry(k).or_insert(0) += v;
        }
        for (k, v) in o.outcomes {
            *self.outcomes.entry(k).or_insert(0) += v;
        }
        self.nontrivial.extend(o.nontrivial);
        self.scenario_digests.extend(o.scenario_digests);
        self.history_digests.extend(o.history_digests);
        self.canaries.extend(o.canaries);
        self.interleavings.extend(o.interleavings);
        for (k, v) in o.probes {
            let e = self.probes.entry(k).or_insert((0, 0, 0));
            e.0 += v.0;
            e.1 += v.1;
            e.2 += v.2;
        }
        for (k, v) in o.counters {
            *self.counters.entry(k).or_insert(0) += v;
        }
        if self.samples.len() < 6 {
            for s in o.samples {
                if self.samples.len() < 6 {
                    self.samples.push(s);
                }
            }
        }
        self.notes.extend(o.notes);
    }

    pub fn to_json(&self) -> Json {
        fn map(m: &BTreeMap<String, u64>) -> Json {
            let mut j = Json::obj();
            for (k, v) in m {
                j.set(k, Json::u(*v));
            }
            j
        }
        fn set(s: &BTreeSet<u64>) -> Json {
            Json::Arr(s.iter().map(|d| Json::s(&format!("{d:016x}"))).collect())
        }
        let mut probes = Json::obj();
        for (k, v) in &self.probes {
            probes.set(
                k,
                Json::Arr(vec![Json::u(v.0), Json::u(v.1), Json::u(v.2)]),
            );
        }
        Json::obj()
            .with(
                "findings",
                Json::Arr(self.findings.iter().map(|f| f.to_json()).collect()),
            )
            .with("cases", Json::u(self.cases))
            .with("evals", Json::u(self.evals))
            .with("loads", Json::u(self.loads))
            .with("allocs", Json::u(self.allocs))
            .with("fired", map(&self.fired))
            .with("outcomes", map(&self.outcomes))
            .with("nontrivial", set(&self.nontrivial))
            .with("scenario_digests", set(&self.scenario_digests))
            .with("history_digests", set(&self.history_digests))
            .with("interleavings", set(&self.interleavings))
            .with("canaries", Json::strs(self.canaries.iter()))
            .with("probes", probes)
            .with("counters", map(&self.counters))
            .with("samples", Json::Arr(self.samples.clone()))
            .with("notes", Json::strs(self.notes.iter()))
    }

    pub fn from_json(j: &Json) -> Report {
        fn map(j: Option<&Json>) -> BTreeMap<String, u64> {
            let mut m = BTreeMap::new();
            if let Some(Json::Obj(o)) = j {
                for (k, v) in o {
                    m.insert(k.clone(), v.u64().unwrap_or(0));
                }
            }
            m
        }
        fn set(j: &[Json]) -> BTreeSet<u64> {
            j.iter()
                .filter_map(|s| s.str())
                .filter_map(|s| u64::from_str_radix(s, 16).ok())
                .collect()
        }
        let mut probes = BTreeMap::new();
        if let Some(Json::Obj(o)) = j.get("probes") {
            for (k, v) in o {
                let a = v.arr().cloned().unwrap_or_default();
                let g = |i: usize| a.get(i).and_then(|x| x.u64()).unwrap_or(0);
                probes.insert(k.clone(), (g(0), g(1), g(2)));
            }
        }
        Report {
            findings: j.ga("findings").iter().map(Finding::from_json).collect(),
            cases: j.gu("cases"),
            evals: j.gu("evals"),
            loads: j.gu("loads"),
            allocs: j.gu("allocs"),
            fired: map(j.get("fired")),
            outcomes: map(j.get("outcomes")),
            nontrivial: set(j.ga("nontrivial")),
            scenario_digests: set(j.ga("scenario_digests")),
            history_digests: set(j.ga("history_digests")),
            interleavings: set(j.ga("interleavings")),
            canaries: j
                .ga("canaries")
                .iter()
                .filter_map(|s| s.str())
                .map(|s| s.to_string())
                .collect(),
            probes,
            counters: map(j.get("counters")),
            samples: j.ga("samples").to_vec(),
            notes: j
                .ga("notes")
                .iter()
                .filter_map(|s| s.str())
                .map(|s| s.to_string())
                .collect(),
        }
    }
}

/// First line at which two texts differ, for violation details
pub fn first_difference(a: &str, b: &str) -> String {
    let mut la = a.lines();
    let mut lb = b.lines();
    let mut n = 1;
    loop {
        match (la.next(), lb.next()) {
            (Some(x), Some(y)) if x == y => n += 1,
            (x, y) => {
                let clip = |s: Option<&str>| match s {
                    Some(s) => {
                        let mut e = s.len().min(160);
                        while !s.is_char_boundary(e) {
                            e -= 1;
                        }
                        format!("{:?}", &s[..e])
                    }
                    None => "<end>".to_string(),
                };
                return format!("line {n}: {} vs {}", clip(x), clip(y));
            }
        }
    }
}
