//! rssl-sim: deterministic simulation with fault injection for the rssl compiler.
//!
//!   rssl-sim check <C07|C08|C12|C14> <quick|thorough>   supervisor: runs the check, writes evidence
//!   rssl-sim replay <file>                              re-executes a replay file in a fresh child
//!   rssl-sim worker <check> <tier> <seed>               (internal) executes units / literal cases
//!   rssl-sim describe <check> <tier> <seed> <unit>      prints the literal cases of a unit
//!   rssl-sim selfcheck                                  seam self checks

mod c07;
mod c08;
mod c12;
mod c14;
mod case;
mod corpus;
mod entropy;
mod exec;
mod json;
mod oracle;
mod plan;
mod prng;
mod simfs;
mod supervisor;
mod w2;
mod w3;

#[global_allocator]
static ALLOC: exec::CountingAlloc = exec::CountingAlloc;

fn usage() -> ! {
    eprintln!(
        "usage: rssl-sim check <C07|C08|C12|C14> <quick|thorough> | replay <file> | describe <check> <tier> <seed> <unit> | selfcheck"
    );
    std::process::exit(2);
}

pub fn parse_tier(s: &str) -> plan::Tier {
    match s {
        "quick" => plan::Tier::Quick,
        "thorough" => plan::Tier::Thorough,
        _ => usage(),
    }
}

pub fn self_checks() -> Result<(), String> {
    entropy::self_check()?;
    simfs::self_check()?;
    Ok(())
}

fn main() {
    let args: Vec<String> = std::env::args().collect();
    if args.len() < 2 {
        usage();
    }
    match args[1].as_str() {
        "check" => {
            if args.len() < 4 {
                usage();
            }
            std::process::exit(supervisor::check(&args[2], parse_tier(&args[3])));
        }
        "replay" => {
            if args.len() < 3 {
                usage();
            }
            std::process::exit(supervisor::replay(&args[2]));
        }
        "worker" => {
            if args.len() < 5 {
                usage();
            }
            let seed: u64 = args[4].parse().unwrap_or(1);
            supervisor::worker_main(&args[2], parse_tier(&args[3]), seed);
        }
        "describe" => {
            if args.len() < 6 {
                usage();
            }
            let seed: u64 = args[4].parse().unwrap_or(1);
            let ctx = plan::Ctx::new(&args[2], parse_tier(&args[3]), seed);
            let unit: u64 = args[5].parse().unwrap_or(0);
            let cases = ctx.unit_cases(unit);
            let full = args.iter().any(|a| a == "--full");
            let arr = json::Json::Arr(
                cases
                    .iter()
                    .map(|c| if full { c.to_json() } else { c.summary() })
                    .collect(),
            );
            print!("{}", arr.pretty());
        }
        "selfcheck" => match self_checks() {
            Ok(()) => println!("selfcheck ok"),
            Err(e) => {
                eprintln!("HARNESS-ERROR: {e}");
                std::process::exit(2);
            }
        },
        _ => usage(),
    }
}
