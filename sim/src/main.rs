//! rssl-sim: deterministic simulation with fault injection for the rssl compiler.
//!
//!   rssl-sim check <C07|C08|C12|C14> <quick|thorough>   supervisor: runs the check, writes evidence
//!   rssl-sim replay <file>                              re-executes a replay file in a fresh child
//!   rssl-sim worker <check> <tier> <seed>               (internal) executes units / literal cases
//!   rssl-sim describe <check> <tier> <seed> <unit>      prints the literal cases of a unit
//!   rssl-sim selfcheck                                  seam self checks

mod c07;
mod c08;
mod c12;
mod c14;
mod case;
mod clock;
mod corpus;
mod entropy;
mod exec;
mod json;
mod model;
mod oracle;
mod plan;
mod prng;
mod simfs;
mod supervisor;
mod w2;
mod w3;

#[global_allocator]
static ALLOC: exec::CountingAlloc = exec::CountingAlloc;

fn usage() -> ! {
    eprintln!(
        "usage: rssl-sim check <C07|C08|C12|C14> <quick|thorough> | replay <file> | describe <check> <tier> <seed> <unit> | selfcheck"
    );
    std::process::exit(2);
}

pub fn parse_tier(s: &str) -> plan::Tier {
    match s {
        "quick" => plan::Tier::Quick,
        "thorough" => plan::Tier::Thorough,
        _ => usage(),
    }
}

pub fn self_checks() -> Result<(), String> {
    entropy::self_check()?;
    clock::self_check()?;
    simfs::self_check()?;
    Ok(())
}

fn main() {
    let args: Vec<String> = std::env::args().collect();
    if args.len() < 2 {
        usage();
    }
    match args[1].as_str() {
        "check" => {
            if args.len() < 4 {
                usage();
            }
            clock::remove_stale_scratch_parents();
            let rc = supervisor::check(&args[2], parse_tier(&args[3]));
            let _ = std::fs::remove_dir_all(clock::campaign_scratch_parent());
            std::process::exit(rc);
        }
        "replay" => {
            if args.len() < 3 {
                usage();
            }
            let rc = supervisor::replay(&args[2]);
            let _ = std::fs::remove_dir_all(clock::campaign_scratch_parent());
            std::process::exit(rc);
        }
        "worker" => {
            if args.len() < 5 {
                usage();
            }
            let seed: u64 = args[4].parse().unwrap_or(1);
            supervisor::worker_main(&args[2], parse_tier(&args[3]), seed);
        }
        "describe" => {
            if args.len() < 6 {
                usage();
            }
            let seed: u64 = args[4].parse().unwrap_or(1);
            let ctx = plan::Ctx::new(&args[2], parse_tier(&args[3]), seed);
            let unit: u64 = args[5].parse().unwrap_or(0);
            let cases = ctx.unit_cases(unit);
            let full = args.iter().any(|a| a == "--full");
            let arr = json::Json::Arr(
                cases
                    .iter()
                    .map(|c| if full { c.to_json() } else { c.summary() })
                    .collect(),
            );
            print!("{}", arr.pretty());
        }
        "model" => {
            // debugging aid: print the reference model's view of the first task of a replay file
            let text = std::fs::read_to_string(&args[2]).expect("read");
            let j = json::Json::parse(&text).expect("json");
            let c = case::Case::from_json(j.get("case").unwrap_or(&j)).expect("case");
            let t = &c.execs[0].threads[0].tasks[0];
            let m = model::run(&c.fss[t.fs], &t.faults, &t.entry, &t.defines);
            println!("walk: {:#?}", m.walk);
            println!("pasted: {:?} once_skips={} depth={}", m.pasted, m.once_skips, m.max_depth);
            match &m.verdict {
                model::Verdict::Ok(toks) => {
                    for t in toks {
                        println!("{}  @ {}", t.render(), t.loc());
                    }
                }
                v => println!("{v:?}"),
            }
        }
        "inproc" => {
            // debugging aid: run the case of a replay file in this process and print the findings
            exec::install_panic_hook();
            let text = std::fs::read_to_string(&args[2]).expect("read");
            let j = json::Json::parse(&text).expect("json");
            let c = case::Case::from_json(j.get("case").unwrap_or(&j)).expect("case");
            let rep = oracle::run_case(&c);
            for f in &rep.findings {
                println!("{} {} [{}] {}", f.property, f.class, f.fingerprint, f.detail);
            }
            println!("{}", rep.to_json().pretty());
        }
        "try" => {
            // debugging aid: compile one file from disk: try <file> <target> [define=value ...]
            exec::install_panic_hook();
            let src = std::fs::read_to_string(&args[2]).expect("read");
            let target = exec::Target::from_name(args.get(3).map(|s| s.as_str()).unwrap_or("HlslForDirectX"))
                .expect("target");
            let mut t = exec::TaskSpec::compile(0, "test.rssl", target);
            t.buffer_address = target == exec::Target::Vk;
            t.no_pipeline = args.iter().any(|a| a == "--no-pipeline");
            t.pipeline = args
                .iter()
                .find_map(|a| a.strip_prefix("--pipeline=").map(|s| s.to_string()));
            t.validate_layout = args.iter().any(|a| a == "--validate-layout");
            for a in args.iter().skip(4) {
                if let Some((n, v)) = a.split_once('=') {
                    t.defines.push((n.to_string(), v.to_string()));
                }
            }
            let fs = plan::snippet_fs(&src);
            let stack = args
                .iter()
                .find_map(|a| a.strip_prefix("--stack=").and_then(|v| v.parse::<u64>().ok()))
                .unwrap_or(plan::STACK_MAIN);
            let ex = exec::ExecSpec::single((1, 2), stack, t);
            let res = exec::run_exec(&ex, std::slice::from_ref(&fs));
            let r = &res.results[0][0];
            println!("{}", r.text);
            println!("allocs={} alloc_bytes={}", r.allocs, r.alloc_bytes);
            for p in &r.probes {
                println!("probe {} len={} sig={:016x}", p.0, p.1, p.2);
            }
        }
        "w2-validate" => {
            exec::install_panic_hook();
            match w2::validate_kind_here(&args[2]) {
                Ok(()) => println!("OK"),
                Err(e) => println!("ERR {}", e.replace('\n', " ")),
            }
        }
        "w2-kinds" => {
            exec::install_panic_hook();
            let (ok, notes) = w2::valid_kinds();
            println!("valid: {ok:?}");
            for n in notes {
                println!("{n}");
            }
            if let Some(k) = args.get(2) {
                let mut rng = prng::Rng::new(0xB10C).sub_n(k, 0);
                println!("{}", w2::program(&[k.as_str()], &mut rng));
            }
        }
        "trivia" => {
            // debugging aid: print a file with trivia inserted: trivia <file> <seed>
            let src = std::fs::read_to_string(&args[2]).expect("read");
            let seed: u64 = args[3].parse().expect("seed");
            print!("{}", simfs::insert_trivia(&src, seed, args.iter().any(|a| a == "--no-splices")));
        }
        "selfcheck" => match self_checks() {
            Ok(()) => println!("selfcheck ok"),
            Err(e) => {
                eprintln!("HARNESS-ERROR: {e}");
                std::process::exit(2);
            }
        },
        _ => usage(),
    }
}
