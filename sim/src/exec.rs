//! Executing simulated compiles: task threads (seam S3), stack budget (S4), heap noise (S5),
//! panic containment, outcome canonicalisation and the per-execution event log.

use crate::json::Json;
use crate::prng::{Rng, fnv64};
use crate::simfs::{Fault, FsSpec, LoadEvent, SimFs};
use std::cell::{Cell, RefCell};
use std::sync::atomic::{AtomicU64, Ordering};
use std::sync::{Condvar, Mutex};

#[derive(Clone, Copy, Debug, PartialEq)]
pub enum Target {
    Dx,
    Vk,
    Msl,
    MetalBytecode,
}

impl Target {
    pub fn name(self) -> &'static str {
        match self {
            Target::Dx => "HlslForDirectX",
            Target::Vk => "HlslForVulkan",
            Target::Msl => "Msl",
            Target::MetalBytecode => "MetalBytecode",
        }
    }
    pub fn from_name(s: &str) -> Option<Target> {
        Some(match s {
            "HlslForDirectX" => Target::Dx,
            "HlslForVulkan" => Target::Vk,
            "Msl" => Target::Msl,
            "MetalBytecode" => Target::MetalBytecode,
            _ => return None,
        })
    }
    fn real(self) -> rssl::Target {
        match self {
            Target::Dx => rssl::Target::HlslForDirectX,
            Target::Vk => rssl::Target::HlslForVulkan,
            Target::Msl => rssl::Target::Msl,
            Target::MetalBytecode => rssl::Target::MetalBytecode,
        }
    }
}

#[derive(Clone, Copy, Debug, PartialEq)]
pub enum Api {
    /// rssl::compile
    Compile,
    /// rssl::preprocess::preprocess + prepare_tokens
    Preprocess,
}

#[derive(Clone, Debug, PartialEq)]
pub struct TaskSpec {
    pub api: Api,
    /// index into Case::fss
    pub fs: usize,
    pub entry: String,
    pub target: Target,
    pub buffer_address: bool,
    pub defines: Vec<(String, String)>,
    pub pipeline: Option<String>,
    pub no_pipeline: bool,
    pub validate_layout: bool,
    pub source_info: bool,
    /// Compile twice through rssl's own `[(name, contents); N]` handler, handing it the same
    /// table both times; the result text holds both outcomes
    pub caller_table: bool,
    pub faults: Vec<Fault>,
    pub heap_noise: u32,
    /// tasks whose outcome the oracle judges (the others are history / bystanders)
    pub subject: bool,
}

impl TaskSpec {
    pub fn compile(fs: usize, entry: &str, target: Target) -> TaskSpec {
        TaskSpec {
            api: Api::Compile,
            fs,
            entry: entry.to_string(),
            target,
            buffer_address: false,
            defines: Vec::new(),
            pipeline: None,
            no_pipeline: false,
            validate_layout: false,
            source_info: false,
            caller_table: false,
            faults: Vec::new(),
            heap_noise: 0,
            subject: true,
        }
    }

    pub fn preprocess(fs: usize, entry: &str) -> TaskSpec {
        let mut t = TaskSpec::compile(fs, entry, Target::Dx);
        t.api = Api::Preprocess;
        t
    }

    /// Everything the property calls "inputs" (used as scenario identity)
    pub fn input_digest(&self, fss: &[FsSpec]) -> u64 {
        let mut j = self.to_json();
        j.set("heap_noise", Json::Null);
        j.set("subject", Json::Null);
        let mut h = fnv64(j.dump().as_bytes());
        let fs = &fss[self.fs];
        h = crate::prng::fnv64_extend(h, format!("{:?}", fs.policy).as_bytes());
        for (k, v) in &fs.files {
            h = crate::prng::fnv64_extend(h, k.as_bytes());
            h = crate::prng::fnv64_extend(h, &fnv64(v.as_bytes()).to_le_bytes());
        }
        h
    }

    pub fn to_json(&self) -> Json {
        let mut j = Json::obj()
            .with(
                "api",
                Json::s(match self.api {
                    Api::Compile => "compile",
                    Api::Preprocess => "preprocess",
                }),
            )
            .with("fs", Json::u(self.fs as u64))
            .with("entry", Json::s(&self.entry))
            .with("target", Json::s(self.target.name()));
        if self.buffer_address {
            j.set("buffer_address", Json::Bool(true));
        }
        if !self.defines.is_empty() {
            j.set(
                "defines",
                Json::Arr(
                    self.defines
                        .iter()
                        .map(|(a, b)| Json::Arr(vec![Json::s(a), Json::s(b)]))
                        .collect(),
                ),
            );
        }
        if let Some(p) = &self.pipeline {
            j.set("pipeline", Json::s(p));
        }
        if self.no_pipeline {
            j.set("no_pipeline", Json::Bool(true));
        }
        if self.validate_layout {
            j.set("validate_layout", Json::Bool(true));
        }
        if self.source_info {
            j.set("source_info", Json::Bool(true));
        }
        if self.caller_table {
            j.set("caller_table", Json::Bool(true));
        }
        if !self.faults.is_empty() {
            j.set(
                "faults",
                Json::Arr(self.faults.iter().map(|f| f.to_json()).collect()),
            );
        }
        if self.heap_noise != 0 {
            j.set("heap_noise", Json::u(self.heap_noise as u64));
        }
        j.set("subject", Json::Bool(self.subject));
        j
    }

    pub fn from_json(j: &Json) -> Result<TaskSpec, String> {
        let mut faults = Vec::new();
        for f in j.ga("faults") {
            faults.push(Fault::from_json(f)?);
        }
        Ok(TaskSpec {
            api: match j.gs("api").as_str() {
                "compile" => Api::Compile,
                "preprocess" => Api::Preprocess,
                o => return Err(format!("bad api {o}")),
            },
            fs: j.gu("fs") as usize,
            entry: j.gs("entry"),
            target: Target::from_name(&j.gs("target")).ok_or("bad target")?,
            buffer_address: j.gb("buffer_address"),
            defines: j
                .ga("defines")
                .iter()
                .map(|d| {
                    let a = d.arr().cloned().unwrap_or_default();
                    (
                        a.first().and_then(|x| x.str()).unwrap_or("").to_string(),
                        a.get(1).and_then(|x| x.str()).unwrap_or("").to_string(),
                    )
                })
                .collect(),
            pipeline: j.get("pipeline").and_then(|p| p.str()).map(|s| s.to_string()),
            no_pipeline: j.gb("no_pipeline"),
            validate_layout: j.gb("validate_layout"),
            source_info: j.gb("source_info"),
            caller_table: j.gb("caller_table"),
            faults,
            heap_noise: j.gu("heap_noise") as u32,
            subject: j.get("subject").and_then(|b| b.bool()).unwrap_or(true),
        })
    }
}

#[derive(Clone, Debug, PartialEq)]
pub struct ThreadSpec {
    /// the 16 bytes this thread's std RandomState is seeded from
    pub key: (u64, u64),
    pub stack: u64,
    /// run in order on this one thread (thread-local history)
    pub tasks: Vec<TaskSpec>,
}

#[derive(Clone, Debug, PartialEq)]
pub struct ExecSpec {
    /// threads run interleaved at load boundaries under the baton scheduler
    pub threads: Vec<ThreadSpec>,
    pub sched_seed: u64,
    /// literal scheduler choices for replay (overrides sched_seed when present)
    pub schedule: Option<Vec<u8>>,
}

impl ExecSpec {
    pub fn single(key: (u64, u64), stack: u64, task: TaskSpec) -> ExecSpec {
        ExecSpec {
            threads: vec![ThreadSpec {
                key,
                stack,
                tasks: vec![task],
            }],
            sched_seed: 0,
            schedule: None,
        }
    }

    pub fn to_json(&self) -> Json {
        let mut j = Json::obj()
            .with(
                "threads",
                Json::Arr(
                    self.threads
                        .iter()
                        .map(|t| {
                            Json::obj()
                                .with(
                                    "key",
                                    Json::Arr(vec![
                                        Json::s(&format!("{:#x}", t.key.0)),
                                        Json::s(&format!("{:#x}", t.key.1)),
                                    ]),
                                )
                                .with("stack", Json::u(t.stack))
                                .with(
                                    "tasks",
                                    Json::Arr(t.tasks.iter().map(|t| t.to_json()).collect()),
                                )
                        })
                        .collect(),
                ),
            )
            .with("sched_seed", Json::s(&format!("{:#x}", self.sched_seed)));
        if let Some(s) = &self.schedule {
            j.set(
                "schedule",
                Json::Arr(s.iter().map(|c| Json::u(*c as u64)).collect()),
            );
        }
        j
    }

    pub fn from_json(j: &Json) -> Result<ExecSpec, String> {
        fn hex(j: Option<&Json>) -> u64 {
            match j {
                Some(Json::Str(s)) => {
                    u64::from_str_radix(s.trim_start_matches("0x"), 16).unwrap_or(0)
                }
                Some(Json::Int(i)) => *i as u64,
                _ => 0,
            }
        }
        let mut threads = Vec::new();
        for t in j.ga("threads") {
            let key = t.ga("key");
            let mut tasks = Vec::new();
            for ts in t.ga("tasks") {
                tasks.push(TaskSpec::from_json(ts)?);
            }
            threads.push(ThreadSpec {
                key: (hex(key.first()), hex(key.get(1))),
                stack: t.gu("stack"),
                tasks,
            });
        }
        Ok(ExecSpec {
            threads,
            sched_seed: hex(j.get("sched_seed")),
            schedule: j
                .get("schedule")
                .and_then(|s| s.arr())
                .map(|a| a.iter().map(|c| c.u64().unwrap_or(0) as u8).collect()),
        })
    }
}

#[derive(Clone, Debug, PartialEq)]
pub enum OutcomeKind {
    Ok,
    Err,
    Panic,
}

#[derive(Clone, Debug)]
pub struct TaskResult {
    pub kind: OutcomeKind,
    /// canonical serialisation of the result: what C07 compares
    pub text: String,
    /// secondary channel (token locations for Preprocess tasks)
    pub aux: String,
    /// "file::message-prefix" for panics
    pub panic_site: String,
    pub panic_line: u32,
    pub events: Vec<LoadEvent>,
    pub allocs: u64,
    pub alloc_bytes: u64,
    pub canary: String,
    pub probes: Vec<(&'static str, usize, u64)>,
    pub subject: bool,
}

impl TaskResult {
    pub fn digest(&self) -> u64 {
        fnv64(self.text.as_bytes())
    }
    pub fn kind_name(&self) -> &'static str {
        match self.kind {
            OutcomeKind::Ok => "ok",
            OutcomeKind::Err => "err",
            OutcomeKind::Panic => "panic",
        }
    }
}

pub struct ExecResult {
    /// [thread][task]
    pub results: Vec<Vec<TaskResult>>,
    pub schedule: Vec<u8>,
    /// canonical event log (without outcomes): identity of the interleaving / load history
    pub history_digest: u64,
    pub log: String,
}

// ---- allocation counting (evidence only: the stand-in for simulated time) ----

thread_local! {
    static ALLOCS: Cell<u64> = const { Cell::new(0) };
    static ALLOC_BYTES: Cell<u64> = const { Cell::new(0) };
    static LAST_PANIC: RefCell<Option<(String, u32, String)>> = const { RefCell::new(None) };
}

pub struct CountingAlloc;

unsafe impl std::alloc::GlobalAlloc for CountingAlloc {
    unsafe fn alloc(&self, layout: std::alloc::Layout) -> *mut u8 {
        let _ = ALLOCS.try_with(|c| c.set(c.get() + 1));
        let _ = ALLOC_BYTES.try_with(|c| c.set(c.get() + layout.size() as u64));
        unsafe { std::alloc::System.alloc(layout) }
    }
    unsafe fn dealloc(&self, ptr: *mut u8, layout: std::alloc::Layout) {
        unsafe { std::alloc::System.dealloc(ptr, layout) }
    }
    unsafe fn realloc(&self, ptr: *mut u8, layout: std::alloc::Layout, new_size: usize) -> *mut u8 {
        let _ = ALLOCS.try_with(|c| c.set(c.get() + 1));
        let _ = ALLOC_BYTES.try_with(|c| c.set(c.get() + new_size as u64));
        unsafe { std::alloc::System.realloc(ptr, layout, new_size) }
    }
}

pub fn install_panic_hook() {
    std::panic::set_hook(Box::new(|info| {
        // Allocations made by the hook itself (backtrace symbolisation caches differ between the
        // first and later panics of a process) must not leak into the per-task allocation count
        let (a_saved, b_saved) = (ALLOCS.with(|c| c.get()), ALLOC_BYTES.with(|c| c.get()));
        let (file, line) = match info.location() {
            Some(l) => (l.file().to_string(), l.line()),
            None => ("<unknown>".to_string(), 0),
        };
        let msg = if let Some(s) = info.payload().downcast_ref::<&str>() {
            s.to_string()
        } else if let Some(s) = info.payload().downcast_ref::<String>() {
            s.clone()
        } else {
            "<non-string panic payload>".to_string()
        };
        // The function the panic came from: first frame of an rssl crate in the backtrace. Unlike a
        // line number it survives unrelated edits to the file, and unlike the bare message it
        // tells two `unwrap()`s in one file apart.
        let bt = std::backtrace::Backtrace::force_capture().to_string();
        let mut func = String::from("?");
        if std::env::var("RSSL_SIM_BT").is_ok() {
            eprintln!("{bt}");
        }
        // Frames come as "N: name" followed by "at path:line:col" (line tables are enabled in the
        // build profile so that inlined functions appear under their own names)
        let lines: Vec<&str> = bt.lines().collect();
        let mut found: Vec<String> = Vec::new();
        for w in lines.windows(2) {
            let (sym_line, at_line) = (w[0].trim(), w[1].trim());
            let Some(path) = at_line.strip_prefix("at ") else {
                continue;
            };
            let Some((_, sym)) = sym_line.split_once(": ") else {
                continue;
            };
            if path.starts_with("/rustc/") || path.starts_with("./") || !path.contains("/src/") {
                continue;
            }
            let rel = repo_relative(path.split(':').next().unwrap_or(path));
            if rel.starts_with('/') {
                continue;
            }
            let name = sym.split('<').next().unwrap_or(sym).trim();
            if name.starts_with('{') || name.is_empty() {
                continue;
            }
            found.push(name.to_string());
            if found.len() == 2 {
                break;
            }
        }
        if !found.is_empty() {
            func = found.join(" < ");
        }
        let msg = format!("{msg}\u{1}{func}");
        LAST_PANIC.with(|p| *p.borrow_mut() = Some((file, line, msg)));
        ALLOCS.with(|c| c.set(a_saved));
        ALLOC_BYTES.with(|c| c.set(b_saved));
    }));
}

/// Path of a source file relative to the repository, so that sites compare across checkouts
pub fn repo_relative(file: &str) -> String {
    for marker in [
        "/preprocess/src/",
        "/parser/src/",
        "/typer/src/",
        "/ir/src/",
        "/hlsl/src/",
        "/msl/src/",
        "/formatter/src/",
        "/text/src/",
        "/ast/src/",
        "/metal_invoker/src/",
    ] {
        if let Some(i) = file.find(marker) {
            return file[i + 1..].to_string();
        }
    }
    if let Some(i) = file.rfind("/src/") {
        return file[i + 1..].to_string();
    }
    file.to_string()
}

// ---- baton scheduler ----

struct BatonState {
    current: usize,
    done: Vec<bool>,
    rng: Rng,
    replay: Option<Vec<u8>>,
    replay_pos: usize,
    choices: Vec<u8>,
}

struct Baton {
    m: Mutex<BatonState>,
    cv: Condvar,
}

impl Baton {
    fn choose(st: &mut BatonState) -> Option<usize> {
        let runnable: Vec<usize> = (0..st.done.len()).filter(|i| !st.done[*i]).collect();
        if runnable.is_empty() {
            return None;
        }
        let pick = if let Some(r) = &st.replay {
            let c = r.get(st.replay_pos).copied().unwrap_or(0) as usize;
            st.replay_pos += 1;
            if runnable.contains(&c) { c } else { runnable[0] }
        } else {
            runnable[st.rng.below(runnable.len() as u64) as usize]
        };
        st.choices.push(pick as u8);
        Some(pick)
    }

    fn wait_turn(&self, me: usize) {
        let mut st = self.m.lock().unwrap();
        while st.current != me {
            st = self.cv.wait(st).unwrap();
        }
    }

    fn yield_point(&self, me: usize) {
        let mut st = self.m.lock().unwrap();
        if let Some(next) = Baton::choose(&mut st) {
            st.current = next;
        }
        self.cv.notify_all();
        while st.current != me {
            st = self.cv.wait(st).unwrap();
        }
    }

    fn finish(&self, me: usize) {
        let mut st = self.m.lock().unwrap();
        st.done[me] = true;
        if let Some(next) = Baton::choose(&mut st) {
            st.current = next;
        } else {
            st.current = usize::MAX;
        }
        self.cv.notify_all();
    }
}

// ---- running ----

fn serialise_ok(pipelines: &[rssl::CompiledPipeline]) -> String {
    let mut s = String::new();
    s.push_str(&format!("Ok pipelines={}\n", pipelines.len()));
    for (i, p) in pipelines.iter().enumerate() {
        s.push_str(&format!("--- pipeline {i}\n"));
        s.push_str(&format!("metadata: {:?}\n", p.metadata));
        s.push_str(&format!("graphics_pipeline_state: {:?}\n", p.graphics_pipeline_state));
        for st in &p.stages {
            s.push_str(&format!(
                "stage: {:?} entry={} tgs={:?}\n",
                st.stage, st.entry_point, st.thread_group_size
            ));
        }
        s.push_str(&format!("data[{}]:\n", p.data.len()));
        match std::str::from_utf8(&p.data) {
            Ok(t) => s.push_str(t),
            Err(_) => s.push_str(&format!("{:?}", p.data)),
        }
        s.push('\n');
    }
    s
}

fn run_api(task: &TaskSpec, fs: &mut SimFs) -> (OutcomeKind, String, String) {
    let defines: Vec<(&str, &str)> = task
        .defines
        .iter()
        .map(|(a, b)| (a.as_str(), b.as_str()))
        .collect();
    if task.caller_table && task.api == Api::Compile {
        return run_caller_table(task, fs.spec, &defines);
    }
    match task.api {
        Api::Compile => {
            let mut args = rssl::CompileArgs::new(&task.entry, fs, task.target.real())
                .defines(&defines)
                .support_buffer_address(task.buffer_address)
                .pipeline_name(task.pipeline.as_deref())
                .source_info(task.source_info)
                .validate_layout_consistency(task.validate_layout);
            if task.no_pipeline {
                args = args.no_pipeline_mode();
            }
            match rssl::compile(args) {
                Ok(p) => (OutcomeKind::Ok, serialise_ok(&p), String::new()),
                Err(e) => {
                    let variant = match &e {
                        rssl::CompileError::Text(_) => "Text",
                        rssl::CompileError::InvalidArgs => "InvalidArgs",
                        rssl::CompileError::MetalCompilerNotFound(_) => "MetalCompilerNotFound",
                        rssl::CompileError::MetalCompilerFailed(_) => "MetalCompilerFailed",
                    };
                    // Rendering is part of the property: a Display impl that panics is caught
                    // by the caller's catch_unwind like any other panic
                    let rendered = e.to_string();
                    (OutcomeKind::Err, format!("Err {variant}\n{rendered}"), String::new())
                }
            }
        }
        Api::Preprocess => {
            use rssl::text::CompileErrorExt;
            let mut sm = rssl::text::SourceManager::new();
            match rssl::preprocess::preprocess(&task.entry, &mut sm, fs, &defines) {
                Ok(tokens) => {
                    let lex = rssl::preprocess::prepare_tokens(&tokens);
                    let mut text = String::from("Ok tokens\n");
                    let mut aux = String::new();
                    for t in &lex {
                        if t.0 == rssl::text::tokens::Token::Eof {
                            continue;
                        }
                        text.push_str(&format!("{:?}\n", t.0));
                        aux.push_str(&format!("{}\n", sm.get_file_location(t.1)));
                    }
                    (OutcomeKind::Ok, text, aux)
                }
                Err(e) => {
                    let rendered = format!("{}", e.display(&sm));
                    (OutcomeKind::Err, format!("Err Text\n{rendered}"), String::new())
                }
            }
        }
    }
}

/// The caller's side of rssl's built-in table handler: a table of eight entries in which the
/// entry file's includes may appear twice (an override in front of a default - the first match
/// counts), compiled twice. The table is the caller's variable; what the second compile sees is
/// whatever the first one left in it.
fn run_caller_table(task: &TaskSpec, spec: &FsSpec, defines: &[(&str, &str)]) -> (OutcomeKind, String, String) {
    let mut owned: Vec<(String, String)> = Vec::new();
    for (name, text) in &spec.files {
        if name != &task.entry && owned.len() < 2 {
            // an override in front of the default
            owned.push((name.clone(), format!("// override\n{text}")));
        }
    }
    for (name, text) in &spec.files {
        owned.push((name.clone(), text.clone()));
    }
    owned.truncate(8);
    while owned.len() < 8 {
        owned.push((format!("pad{}.h", owned.len()), String::new()));
    }
    let mut table: [(&str, &str); 8] = [("", ""); 8];
    for (i, (n, t)) in owned.iter().enumerate() {
        table[i] = (n.as_str(), t.as_str());
    }
    let mut outcomes: Vec<(OutcomeKind, String)> = Vec::new();
    for _ in 0..2 {
        let mut args = rssl::CompileArgs::new(&task.entry, &mut table, task.target.real())
            .defines(defines)
            .support_buffer_address(task.buffer_address)
            .pipeline_name(task.pipeline.as_deref())
            .source_info(task.source_info)
            .validate_layout_consistency(task.validate_layout);
        if task.no_pipeline {
            args = args.no_pipeline_mode();
        }
        outcomes.push(match rssl::compile(args) {
            Ok(p) => (OutcomeKind::Ok, serialise_ok(&p)),
            Err(e) => (OutcomeKind::Err, format!("Err\n{e}")),
        });
    }
    let kind = outcomes[1].0.clone();
    let same = outcomes[0] == outcomes[1];
    (
        kind,
        format!(
            "{}\n=== second compile of the same table: {} ===\n{}",
            outcomes[0].1,
            if same { "identical" } else { "DIFFERENT" },
            if same { "" } else { outcomes[1].1.as_str() }
        ),
        String::new(),
    )
}

fn run_task(task: &TaskSpec, fss: &[FsSpec], yield_hook: Option<&dyn Fn()>) -> TaskResult {
    // S5 - heap noise: live allocations of PRNG sizes so that addresses differ between executions
    let mut noise: Vec<Vec<u8>> = Vec::new();
    if task.heap_noise != 0 {
        let mut r = Rng::new(task.heap_noise as u64);
        for _ in 0..(task.heap_noise % 64) {
            noise.push(Vec::with_capacity(r.range(1, 4096) as usize));
        }
    }

    let canary = crate::entropy::canary_signature();
    let a0 = ALLOCS.with(|c| c.get());
    let b0 = ALLOC_BYTES.with(|c| c.get());
    LAST_PANIC.with(|p| *p.borrow_mut() = None);
    #[cfg(rssl_verif)]
    let _ = rssl::text::verif::drain();

    let mut fs = SimFs::new(&fss[task.fs], &task.faults);
    fs.yield_hook = yield_hook;

    let caught = std::panic::catch_unwind(std::panic::AssertUnwindSafe(|| run_api(task, &mut fs)));

    let allocs = ALLOCS.with(|c| c.get()) - a0;
    let alloc_bytes = ALLOC_BYTES.with(|c| c.get()) - b0;
    drop(noise);

    #[cfg(rssl_verif)]
    let probes = rssl::text::verif::drain();
    #[cfg(not(rssl_verif))]
    let probes = Vec::new();

    let events = std::mem::take(&mut fs.events);
    match caught {
        Ok((kind, text, aux)) => TaskResult {
            kind,
            text,
            aux,
            panic_site: String::new(),
            panic_line: 0,
            events,
            allocs,
            alloc_bytes,
            canary,
            probes,
            subject: task.subject,
        },
        Err(_) => {
            let (file, line, msg) = LAST_PANIC
                .with(|p| p.borrow_mut().take())
                .unwrap_or(("<unknown>".into(), 0, "<no message>".into()));
            let file = repo_relative(&file);
            let (msg, func) = match msg.split_once('\u{1}') {
                Some((m, f)) => (m.to_string(), f.to_string()),
                None => (msg, "?".to_string()),
            };
            TaskResult {
                kind: OutcomeKind::Panic,
                text: format!("Panic {file} in {func}: {msg}"),
                aux: String::new(),
                panic_site: format!("{file} {func}: {}", msg_prefix(&msg)),
                panic_line: line,
                events,
                allocs,
                alloc_bytes,
                canary,
                probes,
                subject: task.subject,
            }
        }
    }
}

/// The stable part of a panic message: its first line up to the first ": " (what follows is
/// usually payload data), digit runs replaced by '#', at most 80 characters
pub fn msg_prefix(msg: &str) -> String {
    let first = msg.lines().next().unwrap_or("");
    // (for a failed assert! what follows "assertion failed: " is the asserted expression - source
    // text, not payload - and is what tells two assertions of one function apart)
    let cut = if first.starts_with("assertion failed: ") {
        first.len()
    } else {
        first.find(": ").unwrap_or(first.len())
    };
    let mut out = String::new();
    let mut in_digits = false;
    for c in first[..cut].chars() {
        if c.is_ascii_digit() {
            if !in_digits {
                out.push('#');
            }
            in_digits = true;
        } else {
            in_digits = false;
            out.push(c);
        }
        if out.len() >= 80 {
            break;
        }
    }
    let out = out.trim().to_string();
    if out.is_empty() { "<empty message>".to_string() } else { out }
}

static GLOBAL_SEQ: AtomicU64 = AtomicU64::new(0);

/// Run one execution: every thread of the spec, interleaved by the baton at load boundaries.
pub fn run_exec(spec: &ExecSpec, fss: &[FsSpec]) -> ExecResult {
    let n = spec.threads.len();
    let baton = Baton {
        m: Mutex::new(BatonState {
            current: usize::MAX,
            done: vec![false; n],
            rng: Rng::new(spec.sched_seed),
            replay: spec.schedule.clone(),
            replay_pos: 0,
            choices: Vec::new(),
        }),
        cv: Condvar::new(),
    };
    GLOBAL_SEQ.store(0, Ordering::SeqCst);
    let order: Mutex<Vec<(u64, usize, usize)>> = Mutex::new(Vec::new());
    // S8: the environment of this execution is a function of its first thread's key
    if let Some(th) = spec.threads.first() {
        crate::clock::apply_environment(th.key.0.wrapping_mul(31) ^ th.key.1);
    }
    // S9: decoy files on the disk under the names of the files of every small tree in use
    let _decoys = {
        let mut names: Vec<&String> = Vec::new();
        for th in &spec.threads {
            for t in &th.tasks {
                if let Some(fs) = fss.get(t.fs)
                    && fs.files.len() <= 12
                {
                    names.extend(fs.files.keys());
                }
            }
        }
        names.sort();
        names.dedup();
        let key = spec.threads.first().map(|t| t.key.0 ^ t.key.1.rotate_left(9)).unwrap_or(0);
        crate::clock::Decoys::plant(&names, key)
    };

    let results: Vec<Vec<TaskResult>> = std::thread::scope(|scope| {
        let mut handles = Vec::new();
        for (ti, th) in spec.threads.iter().enumerate() {
            let baton = &baton;
            let order = &order;
            let builder = std::thread::Builder::new()
                .stack_size(th.stack.max(64 * 1024) as usize)
                .name(format!("task-{ti}"));
            let h = builder
                .spawn_scoped(scope, move || {
                    crate::entropy::set_thread_key(th.key.0, th.key.1);
                    crate::clock::set_thread_clock(th.key.0 ^ th.key.1.rotate_left(17));
                    let interleaved = n > 1;
                    if interleaved {
                        baton.wait_turn(ti);
                    }
                    let hook = move || baton.yield_point(ti);
                    let mut out = Vec::new();
                    for (k, task) in th.tasks.iter().enumerate() {
                        order
                            .lock()
                            .unwrap()
                            .push((GLOBAL_SEQ.fetch_add(1, Ordering::SeqCst), ti, k));
                        let r = if interleaved {
                            run_task(task, fss, Some(&hook))
                        } else {
                            run_task(task, fss, None)
                        };
                        out.push(r);
                        if interleaved && k + 1 < th.tasks.len() {
                            baton.yield_point(ti);
                        }
                    }
                    if interleaved {
                        baton.finish(ti);
                    }
                    crate::clock::clear_thread_clock();
                    out
                })
                .expect("spawn task thread");
            handles.push(h);
        }
        if n > 1 {
            // Hand the baton to the first thread chosen by the scheduler
            let mut st = baton.m.lock().unwrap();
            if let Some(first) = Baton::choose(&mut st) {
                st.current = first;
            }
            drop(st);
            baton.cv.notify_all();
        }
        handles
            .into_iter()
            .map(|h| h.join().expect("task thread died outside catch_unwind"))
            .collect()
    });

    let schedule = baton.m.into_inner().unwrap().choices;

    // Canonical log: task starts in global order, then per task its load history
    let mut log = String::new();
    for (seq, ti, k) in order.into_inner().unwrap() {
        log.push_str(&format!("start seq={seq} thread={ti} task={k}\n"));
    }
    log.push_str(&format!("schedule {:?}\n", schedule));
    for (ti, tr) in results.iter().enumerate() {
        for (k, r) in tr.iter().enumerate() {
            for e in &r.events {
                log.push_str(&format!(
                    "load thread={ti} task={k} k={} name={:?} parent={:?} resolved={:?} resp={} bytes={} digest={:016x} fired={:?}\n",
                    e.index, e.file_name, e.parent_name, e.resolved, e.response, e.bytes, e.digest, e.fired
                ));
            }
        }
    }
    let history_digest = fnv64(log.as_bytes());
    for (ti, tr) in results.iter().enumerate() {
        for (k, r) in tr.iter().enumerate() {
            log.push_str(&format!(
                "end thread={ti} task={k} outcome={} digest={:016x} canary={}\n",
                r.kind_name(),
                r.digest(),
                r.canary
            ));
        }
    }

    ExecResult {
        results,
        schedule,
        history_digest,
        log,
    }
}
