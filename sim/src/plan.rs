//! Which cases a check runs: (check, tier, seed, unit index) -> cases. Pure functions of their
//! arguments and of the tree under /repo/tests.

use crate::case::Case;
use crate::corpus::{Corpus, CorpusEntry};
use crate::exec::{ExecSpec, Target, TaskSpec, ThreadSpec};
use crate::json::Json;
use crate::prng::Rng;
use crate::simfs::{Fault, FaultKind, FsSpec, Policy, Sel};

#[derive(Clone, Copy, PartialEq, Debug)]
pub enum Tier {
    Quick,
    Thorough,
}

impl Tier {
    pub fn name(self) -> &'static str {
        match self {
            Tier::Quick => "quick",
            Tier::Thorough => "thorough",
        }
    }
}

pub struct Ctx {
    pub check: String,
    pub tier: Tier,
    pub seed: u64,
    pub corpus: Corpus,
    pub snippets: Vec<String>,
    pub notes: Vec<String>,
    /// multiplies the generated-workload sizes (soak runs)
    pub scale: u64,
}

pub const STACK_SMALL: u64 = 2 * 1024 * 1024;
pub const STACK_MAIN: u64 = 8 * 1024 * 1024;

impl Ctx {
    pub fn new(check: &str, tier: Tier, seed: u64) -> Ctx {
        let corpus = crate::corpus::load();
        let (snippets, mut notes) = crate::corpus::harvest_snippets();
        notes.extend(corpus.notes.iter().cloned());
        let scale = std::env::var("RSSL_SIM_SCALE")
            .ok()
            .and_then(|s| s.parse().ok())
            .unwrap_or(1);
        Ctx {
            check: check.to_string(),
            tier,
            seed,
            corpus,
            snippets,
            notes,
            scale,
        }
    }

    pub fn rng(&self) -> Rng {
        Rng::new(self.seed).sub(&self.check).sub(self.tier.name())
    }

    pub fn sections(&self) -> Vec<(&'static str, u64)> {
        let all = self.all_sections();
        // development aid: RSSL_SIM_ONLY=a,b restricts a run to the named sections
        match std::env::var("RSSL_SIM_ONLY") {
            Ok(only) if !only.is_empty() => all
                .into_iter()
                .map(|(n, c)| if only.split(',').any(|o| o == n) { (n, c) } else { (n, 0) })
                .collect(),
            _ => all,
        }
    }

    fn all_sections(&self) -> Vec<(&'static str, u64)> {
        match self.check.as_str() {
            "C07" => crate::c07::sections(self),
            "C08" => crate::c08::sections(self),
            "C12" => crate::c12::sections(self),
            "C14" => crate::c14::sections(self),
            "SELF" => vec![("null", 64)],
            _ => vec![],
        }
    }

    pub fn units(&self) -> u64 {
        self.sections().iter().map(|s| s.1).sum()
    }

    pub fn locate(&self, mut unit: u64) -> Option<(&'static str, u64)> {
        for (name, n) in self.sections() {
            if unit < n {
                return Some((name, unit));
            }
            unit -= n;
        }
        None
    }

    pub fn unit_cases(&self, unit: u64) -> Vec<Case> {
        let Some((section, i)) = self.locate(unit) else {
            return vec![];
        };
        match self.check.as_str() {
            "C07" => crate::c07::cases(self, section, i),
            "C08" => crate::c08::cases(self, section, i),
            "C12" => crate::c12::cases(self, section, i),
            "C14" => crate::c14::cases(self, section, i),
            _ => vec![],
        }
    }
}

/// One scenario of workload W1
#[derive(Clone, Debug)]
pub struct W1Scenario {
    pub label: String,
    pub entry: usize,
    pub task: TaskSpec,
}

/// Names of the pipelines a source file declares (textual scan; used only to pick option values)
pub fn pipeline_names(src: &str) -> Vec<String> {
    let mut out = Vec::new();
    let mut rest = src;
    while let Some(i) = rest.find("Pipeline") {
        let before_ok = rest[..i]
            .chars()
            .next_back()
            .is_none_or(|c| !(c.is_alphanumeric() || c == '_'));
        rest = &rest[i + "Pipeline".len()..];
        if !before_ok {
            continue;
        }
        let t = rest.trim_start();
        if t.len() == rest.len() {
            continue;
        }
        let name: String = t
            .chars()
            .take_while(|c| c.is_alphanumeric() || *c == '_')
            .collect();
        if !name.is_empty() {
            out.push(name);
        }
    }
    out
}

/// The W1 scenario list: every entry under the three source targets as the repository's tests
/// compile it, plus option variants of the single-file programs. Fixed by the tree, not the seed.
pub fn w1_scenarios(corpus: &Corpus, with_variants: bool) -> Vec<W1Scenario> {
    let mut out = Vec::new();
    for (ei, e) in corpus.entries.iter().enumerate() {
        for target in [Target::Dx, Target::Vk, Target::Msl] {
            let task = corpus.base_task(e, target, 0);
            out.push(W1Scenario {
                label: format!("W1:{}@{}", e.label, target.name()),
                entry: ei,
                task,
            });
        }
        if !with_variants {
            continue;
        }
        let targets = [Target::Dx, Target::Vk, Target::Msl];
        let rot = |n: usize| targets[(ei + n) % 3];
        if !e.external {
            let src = &corpus.trees[e.tree].files[&e.entry];
            let names = pipeline_names(src);
            // named pipeline
            if let Some(n) = names.first() {
                let mut t = corpus.base_task(e, rot(0), 0);
                t.pipeline = Some(n.clone());
                out.push(W1Scenario {
                    label: format!("W1:{}@{}+pipeline={n}", e.label, t.target.name()),
                    entry: ei,
                    task: t,
                });
            }
            // unknown pipeline name
            let mut t = corpus.base_task(e, rot(1), 0);
            t.pipeline = Some("NoSuchPipeline".into());
            out.push(W1Scenario {
                label: format!("W1:{}@{}+pipeline=unknown", e.label, t.target.name()),
                entry: ei,
                task: t,
            });
            // no-pipeline mode
            let mut t = corpus.base_task(e, rot(2), 0);
            t.no_pipeline = true;
            out.push(W1Scenario {
                label: format!("W1:{}@{}+no_pipeline", e.label, t.target.name()),
                entry: ei,
                task: t,
            });
            // layout validation off, buffer addresses off
            let mut t = corpus.base_task(e, rot(0), 0);
            t.validate_layout = false;
            t.buffer_address = false;
            out.push(W1Scenario {
                label: format!("W1:{}@{}-validate", e.label, t.target.name()),
                entry: ei,
                task: t,
            });
            // Metal bytecode: must end in a rendered MetalCompilerNotFound on this platform
            let mut t = corpus.base_task(e, Target::MetalBytecode, 0);
            t.source_info = ei % 2 == 0;
            out.push(W1Scenario {
                label: format!("W1:{}@MetalBytecode", e.label),
                entry: ei,
                task: t,
            });
            // invalid argument combination
            let mut t = corpus.base_task(e, Target::Msl, 0);
            t.buffer_address = true;
            out.push(W1Scenario {
                label: format!("W1:{}@Msl+buffer_address(invalid args)", e.label),
                entry: ei,
                task: t,
            });
        } else {
            // with pipelines required: these sources have none, so this is a rejected input
            let mut t = corpus.base_task(e, rot(0), 0);
            t.no_pipeline = false;
            out.push(W1Scenario {
                label: format!("W1:{}@{}+pipelines", e.label, t.target.name()),
                entry: ei,
                task: t,
            });
            // without the defines the tests pass: a different, mostly rejected, configuration
            let mut t = corpus.base_task(e, rot(1), 0);
            t.defines.clear();
            out.push(W1Scenario {
                label: format!("W1:{}@{}-defines", e.label, t.target.name()),
                entry: ei,
                task: t,
            });
        }
    }
    out
}

/// Single-file tree for a snippet
pub fn snippet_fs(src: &str) -> FsSpec {
    let mut fs = FsSpec::new(Policy::Flat);
    fs.files.insert("test.rssl".into(), src.to_string());
    fs
}

pub fn key(rng: &mut Rng) -> (u64, u64) {
    (rng.next_u64(), rng.next_u64())
}

/// Cheap bystander tasks (other scenarios run before / next to the subject), as (tree, task)
pub fn bystanders(corpus: &Corpus, rng: &mut Rng, n: usize) -> Vec<(FsSpec, TaskSpec)> {
    let basics: Vec<&CorpusEntry> = corpus.entries.iter().filter(|e| !e.external).collect();
    let mut out = Vec::new();
    for _ in 0..n {
        if basics.is_empty() {
            let fs = snippet_fs("static const int bystander = 1;\nvoid f() {}\n");
            let mut t = TaskSpec::compile(0, "test.rssl", Target::Dx);
            t.no_pipeline = true;
            t.subject = false;
            out.push((fs, t));
            continue;
        }
        let e = *rng.pick(&basics);
        let target = *rng.pick(&[Target::Dx, Target::Vk, Target::Msl]);
        let mut t = corpus.base_task(e, target, 0);
        t.subject = false;
        out.push((corpus.trees[e.tree].clone(), t));
    }
    out
}

/// Build a C07 case: `s` executions of one scenario that differ only in things the property says
/// must not matter (hash keys, thread history, concurrency, heap, stack)
pub fn det_case(
    label: &str,
    subject_fs: FsSpec,
    mut subject: TaskSpec,
    corpus: &Corpus,
    rng: &mut Rng,
    s: usize,
) -> Case {
    let mut fss = vec![subject_fs];
    subject.fs = 0;
    subject.subject = true;
    // the options are inputs too: a third of the compiles ask for source information
    if subject.api == crate::exec::Api::Compile && rng.sub("options").chance(1, 3) {
        subject.source_info = true;
    }
    let by = bystanders(corpus, &mut rng.sub("bystanders"), 2);
    let mut by_tasks = Vec::new();
    for (fs, mut t) in by {
        fss.push(fs);
        t.fs = fss.len() - 1;
        by_tasks.push(t);
    }
    // A compile that fails before the subject runs on the same thread: at the first load, half-way
    // (type error / parse error after preprocessing), or by panicking inside an exporter (one of
    // the open known findings) - state left behind by any of them must not change the subject
    let mut failing = by_tasks[1].clone();
    let mut fr = rng.sub("failing");
    let pick = if subject.api == crate::exec::Api::Preprocess && fr.chance(3, 4) {
        [4, 6, 7][fr.below(3) as usize]
    } else if !subject.defines.is_empty() && fr.chance(1, 2) {
        // subjects that take API-level defines meet the history that dies inside one
        7
    } else {
        fr.below(8)
    };
    match pick {
        7 => {
            // a compile that fails while an API-level define is being expanded (wrong number of
            // arguments inside the define's value), with 0-3 other defines in front of it
            let mut fs = snippet_fs("#define CLAMPQ(a) a\nstatic const int q = QUALITY ;\n");
            fs.policy = crate::simfs::Policy::ParentRelative;
            fss.push(fs);
            let mut t = TaskSpec::compile(fss.len() - 1, "test.rssl", subject.target);
            t.api = subject.api;
            t.no_pipeline = true;
            t.buffer_address = subject.buffer_address;
            for k in 0..fr.below(4) {
                t.defines.push((format!("PAD{k}"), k.to_string()));
            }
            t.defines.push(("QUALITY".into(), "CLAMPQ(2,3)".into()));
            t.subject = false;
            failing = t;
        }
        6 => {
            // preprocessing that fails right after a few ## pastes (state left half-way)
            let mut fs = snippet_fs(
                "#define CAT(a,b) a##b\nCAT(x,1) CAT(y,2) CAT(z,3) ;\n#include \"missing_after_pastes.h\"\n",
            );
            fs.policy = crate::simfs::Policy::ParentRelative;
            fss.push(fs);
            let mut t = TaskSpec::compile(fss.len() - 1, "test.rssl", subject.target);
            t.api = subject.api;
            t.no_pipeline = true;
            t.buffer_address = subject.buffer_address;
            t.subject = false;
            failing = t;
        }
        0 => failing.faults = vec![Fault::new(FaultKind::NotFound, Sel::LoadIndex(0))],
        4 | 5 => {
            // a generated include graph with ## pastes whose preprocessing fails half-way
            // (a failed load, a lost line, a NUL byte ...), or that fails in the parser
            let g = crate::w3::generate(
                &mut fr.sub("graph"),
                crate::w3::Mode::Hostile,
                crate::w3::Form::Pre,
            );
            let base = crate::model::run(&g.fs, &[], &g.entry, &g.defines);
            let mut t = crate::w3::compile_task(&g, &mut fr.sub("target"));
            t.faults = crate::c12::fault_plan(&mut fr.sub("faults"), &g, &base, 2);
            fss.push(g.fs.clone());
            t.fs = fss.len() - 1;
            t.subject = false;
            failing = t;
        }
        n => {
            let src = [
                "static int a; void f() { undeclared_name = a; }\n",
                "struct S { int x; }; void f( { S s; }\n",
                "struct S { void f(); };\nstatic int after_the_panic;\n",
            ][(n - 1) as usize];
            fss.push(snippet_fs(src));
            failing = TaskSpec::compile(fss.len() - 1, "test.rssl", subject.target);
            failing.no_pipeline = true;
            failing.buffer_address = subject.buffer_address;
            failing.subject = false;
        }
    }

    let mut execs = Vec::new();
    let mut keys = rng.sub("keys");
    let mut shapes = rng.sub("shapes");
    for i in 0..s {
        let shape = if i < 5 { i as u64 } else { shapes.below(5) };
        let mut subj = subject.clone();
        let ex = match shape {
            0 => ExecSpec::single(key(&mut keys), STACK_SMALL, subj),
            1 => {
                subj.heap_noise = (keys.next_u64() % 100_000) as u32 + 1;
                ExecSpec::single(key(&mut keys), STACK_MAIN, subj)
            }
            2 => ExecSpec {
                // thread-local history: other compiles, one of them failing, ran before
                threads: vec![ThreadSpec {
                    key: key(&mut keys),
                    stack: STACK_MAIN,
                    tasks: vec![by_tasks[0].clone(), failing.clone(), subj],
                }],
                sched_seed: 0,
                schedule: None,
            },
            3 => ExecSpec {
                // concurrent with other compiles
                threads: vec![
                    ThreadSpec {
                        key: key(&mut keys),
                        stack: STACK_MAIN,
                        tasks: vec![subj],
                    },
                    ThreadSpec {
                        key: key(&mut keys),
                        stack: STACK_SMALL,
                        tasks: vec![by_tasks[0].clone(), by_tasks[1].clone()],
                    },
                ],
                sched_seed: keys.next_u64(),
                schedule: None,
            },
            _ => ExecSpec {
                // the same compile twice, concurrently, under different hash keys
                threads: vec![
                    ThreadSpec {
                        key: key(&mut keys),
                        stack: STACK_MAIN,
                        tasks: vec![subj.clone()],
                    },
                    ThreadSpec {
                        key: key(&mut keys),
                        stack: STACK_MAIN,
                        tasks: vec![subj],
                    },
                ],
                sched_seed: keys.next_u64(),
                schedule: None,
            },
        };
        execs.push(ex);
    }
    Case {
        check: "C07".into(),
        kind: "det".into(),
        label: label.to_string(),
        fss,
        execs,
        params: Json::obj(),
    }
}

/// A single-task, single-thread C08 case
pub fn total_case(label: &str, fs: FsSpec, mut task: TaskSpec, k: (u64, u64), stack: u64) -> Case {
    task.fs = 0;
    task.subject = true;
    Case {
        check: "C08".into(),
        kind: "total".into(),
        label: label.to_string(),
        fss: vec![fs],
        execs: vec![ExecSpec::single(k, stack, task)],
        params: Json::obj(),
    }
}
