#!/usr/bin/env python3
"""Writes MANIFEST.json (kept as a script so that the long texts stay readable)."""
import json, subprocess

NA = {
 "C01": "HLSL export preserving meaning is a relation between a program text and the text emitted for it: a pure function of the input with no schedule, clock, fault, crash point or second party. Deciding it needs an evaluator pair over generated programs (differential / property-based testing), which is a different technique family; dressing input generation as simulation is ruled out by the brief.",
 "C02": "MSL export preserving meaning is a pure program-text relation like C01. The only order-dependent part (which globals are threaded through a function, msl/src/generator.rs) is decided as determinism under C07, not as meaning.",
 "C03": "Well-typedness of the elaborated IR is a typing judgement over the result of a pure function of the program text; nothing in it depends on scheduling, I/O, time or faults.",
 "C04": "Emitted DirectX HLSL being a fixpoint is the composition of a pure function with itself; no state survives a compile() call (no globals, thread-locals or caches: DESIGN 1.1), so two calls do not form a history a simulator could vary.",
 "C05": "Reflection agreeing with the emitted source relates two outputs of one pure call; there is no environment interaction to simulate.",
 "C06": "Binding slots are assigned by a sequential bump allocator over declaration order inside one call; there is no concurrent or faulty requester. Its single hash iteration (inline constant sizes) is covered as determinism under C07.",
 "C09": "Print/parse being inverse is a pure tree <-> text round trip.",
 "C10": "Lexing being lossless and literals exact is a pure text -> token function.",
 "C11": "Conditional compilation is a pure text -> text automaton over #if chains; the include-crossing cases are exercised under C12, but C11's own content (all chains, condition arithmetic) is enumeration of inputs, not of schedules or faults.",
 "C13": "Constant evaluation is a pure expression -> value function.",
 "C15": "Renaming invariance / hygiene is a metamorphic relation on program text; the hash-order-dependent part of name generation is decided under C07.",
 "C16": "The 'order' in overload-resolution order-independence is declaration order in the text, i.e. an input permutation, not a schedule the simulator could own.",
 "C17": "Independent compilation of pipelines relates calls with different pipeline_name / file contents: configurations of a pure function; the per-pipeline loop in src/compile.rs is sequential and shares no mutable state.",
 "C18": "Agreement between targets relates calls with different Target values of a pure function.",
 "C19": "Soundness of layout validation is pure struct-layout arithmetic checked against a calculator; no environment is involved.",
}

CHECKS = {
 "C07": dict(
   category="exploration",
   text="Seeded search over the only schedule this library has - the iteration order of every std HashMap/HashSet, owned by the simulator through an interposed getrandom - crossed with thread history, concurrent compiles interleaved at include-load boundaries, heap layout, stack size, a simulated wall clock (interposed clock_gettime: every execution has its own epoch and every read jumps by 0.2-3.2 s, differently per execution), a simulated process environment (fourteen variables set or removed per execution), decoy files on disk under the names of the scenario's own files (every worker lives in a private scratch directory) and (sample) a second process; generated flat trees are also compiled twice from one caller-held table through rssl's own array handler. Every scenario (repository shaders, generated container-filling programs and each of their error tails alone, generated include graphs, faulted variants, snippets of the repository's tests; accepted and rejected; all targets and options incl. source_info) is executed 6 (quick) / 16 (thorough) times and all outcomes - bytes, metadata, stages, pipeline state, diagnostics, panics - must be identical. Exploration is the right level: the space of hash keys is 2^128 per thread and only sampling is possible; probes measure that the order-sensitive containers really held >= 2 elements in >= 2 orders.",
   note="Trusted: the getrandom and clock_gettime interpositions (self-checked every run), the outcome serialisation (Debug of the public result types). Not reached: nondeterminism that needs an input shape none of the workloads produce. The load-request order is logged but deliberately not part of the oracle (the statement does not promise it).",
   technique="deterministic simulation: seeded hash-order schedules (getrandom seam) x thread history x baton-scheduled concurrent compiles x simulated clock and environment, outcome equality across executions",
   design="4 C07"),
 "C08": dict(
   category="fault_enumeration",
   text="Environment slice of totality, plus the baseline it rests on: every realistic source tree (repository shaders, generated include graphs) is compiled under every single storage/transport fault of the simulated file system - error at each load index, short read at every line end and mid-line, bit flips and lost/duplicated line windows on a fixed lattice, empty file, CRLF/BOM/NUL, twelve hostile real_names, stale second read, lost guards, inserted self-includes, include cycles - and combinations of up to three from a constant universe seed, on all four targets and option combinations, inside supervised worker processes so that panics, aborts, stack overflows and hangs are all observed; every token of every snippet of the repository's own tests is lost, duplicated or swapped; and 18 families of programs with a nesting / repetition parameter (among them self-referential macros under nested invocations) must need at most 8x more allocation events (deterministic logical time) per doubling. Outcome must be Ok or an Err that renders. The fault universes are finite and fixed by the tree; thorough enumerates them completely (about 690 000 runs), quick visits a seed-chosen residue class.",
   note="Arbitrary byte strings, token soups and grammar-derived programs are input fuzzing (another family) and are not generated, so a panic that needs syntax that no corpus file, snippet or generated program +- one fault contains is out of reach. Wall-clock time is only judged by the hang watchdog (120 s per unit); polynomial time is judged in allocation events. Open known findings are listed in known_findings.json and matched by file + innermost two functions of the panic backtrace + message prefix.",
   technique="deterministic simulation with fault injection at the IncludeHandler seam; supervised worker processes attribute aborts/stack overflows/hangs; logical-time (allocation event) scaling",
   design="4 C08"),
 "C12": dict(
   category="exploration",
   text="Generated include graphs on a simulated directory tree (resolution policies, aliases, same name in two directories, #pragma once anywhere incl. inside conditional regions, guards, cycles, conditional regions spanning files, hundreds of repeated includes, load faults) carrying object-like and function-like macros (0-3 parameters, nested invocations, parenthesised arguments with commas, empty arguments, wrong arity, self and mutual reference (also through arguments), bare function-like names as arguments, bodies made of parameters only, invocations spanning lines, redefinition between kinds, #undef across files, the ## paste macro incl. pastes of two literals and pastes that spell keywords) are preprocessed by rssl and by an independent reference model of textual inclusion + C macro replacement that resolves through the same simulated file system; token streams must be equal (refinement), the handler's request history must be justified by the model (no invented request, no silently skipped first request, correct parent name, nothing after an error), compile() must accept exactly the pasted programs that are valid, API-level defines must equal #define lines placed before the first line, and a whole generated program (functions, overloads, templates, resources, pipelines) must compile to the same sources and metadata as one file, cut at top-level line boundaries into files that include one another (with #pragma once parts included again), and with one to four of its words replaced everywhere by object-like macros.",
   note="The model answers 'unmodelled' (counted in evidence, never judged) where C and RSSL are known to differ or C leaves the result open: the DR 268 cases around a replacement that ends in a function-like macro name followed by '(', a line break between such a name and '(', ## with macro-name operands, #elif after #else, stringification, arithmetic in #if. Duplicate API-level define names are not generated. Plain (flat names) and hostile (aliases, faults) configurations are judged and reported separately.",
   technique="deterministic simulation: compiler <-> include-handler protocol on a simulated file system with fault injection, refinement against an executable reference model of textual inclusion and macro replacement",
   design="4 C12"),
 "C14": dict(
   category="fault_enumeration",
   text="The simulator plants a failure whose position it knows - a failed load at a known #include directive, a NUL byte or an unterminated comment at a known line, a byte order mark, one of twelve exact error gadgets (redefinitions, unknown names, parser errors, an ambiguous call whose notes must name the candidates - also across files) or of 42 calibrated ones (one per kind of typer error a few lines can provoke; the gadget alone says where and what, planted it must say the same there) after a declaration the reference model says is emitted - in generated include graphs and in the repository's shader trees, then checks that the rendered diagnostic names that file, line (and column for gadgets), that inserting k in {1,2,7,50} trivia lines above the construct moves the line by exactly k with message, file and column unchanged, and that growing files loaded earlier leaves the diagnostic byte-identical. The file:line:col of every token of generated graphs (through macro bodies, command-line defines and ## scratch files) is compared with where the generator wrote it. Layout trivia: whole-tree CRLF translation and whitespace / comments (also ones that look like delimiters or hold multi-byte characters) / backslash splices inserted at token boundaries inside the text and directive lines of every file must not change the result; a file read twice whose second read differs must give the result of one consistent world.",
   note="Diagnostics whose position the simulator did not cause are not judged (a failing #if condition is reported where its first token was written, possibly a macro body). Trivia is never inserted inside strings, comments or multi-character operators, directly after < or >, between a macro's name and its parameter list, or in front of a directive's name; a bare line break only in front of , ) ; (and a variant in which such a break reaches the '(' of a function-like macro by substitution - where RSSL and C differ - is not judged). Calibrated gadgets cannot see a defect that is the same with and without includes.",
   technique="deterministic simulation with fault injection: planted load failures / corrupt bytes / error gadgets at known positions across include histories, metamorphic k-line shift, bystander growth and trivia insertion",
   design="4 C14"),
}

import os
claimed = [c for c in ["C07", "C08", "C12", "C14"] if os.environ.get("CLAIM", "C07,C08,C12,C14").find(c) >= 0]
pending = {
 "C08": "check under construction in this round (environment slice of totality: include-handler fault enumeration); not yet registered",
 "C12": "check under construction in this round (inclusion / define-placement refinement against a reference model); not yet registered",
 "C14": "check under construction in this round (planted multi-file diagnostics); not yet registered",
}

hooks_commits = subprocess.run(["git", "-C", "/repo", "log", "--format=%H %s"], capture_output=True, text=True).stdout.splitlines()
hook_commits = [l.split()[0] for l in hooks_commits if l.split(" ", 1)[1].startswith("verif-hook:")]

m = {
 "version": 1,
 "setup_cmd": "cd /verif/sim && CARGO_NET_OFFLINE=true cargo build --release --offline",
 "hooks": {
   "guard": "cfg(rssl_verif)",
   "enable": "RUSTFLAGS='--cfg rssl_verif' (set in /verif/sim/.cargo/config.toml, so every check builds /repo with the probes on)",
   "baseline_off_cmd": "cd /repo && cargo test --workspace --no-fail-fast --offline",
   "source_commits": hook_commits,
   "add_only": True,
 },
 "engines": [{
   "name": "rssl-sim",
   "path": "/verif/sim",
   "serves_properties": claimed,
   "kind_free_text": "deterministic simulator: seeded PRNG decides hash keys (getrandom seam), file-system faults (IncludeHandler seam), thread placement and baton-scheduled interleaving; supervisor/worker processes contain panics, aborts and hangs; replay files + ddmin minimiser; zero third-party crates",
 }],
 "checks": [],
 "not_applicable": [],
 "notes": "See DESIGN.md. Four properties meet the environment (hash-seed schedule, include handler) and are claimed; the other fifteen are pure functions of the program text, for which deterministic simulation has nothing to vary.",
}
for c in claimed:
    d = CHECKS[c]
    m["checks"].append({
      "property_id": c,
      "quick_cmd": f"./check {c} quick",
      "thorough_cmd": f"./check {c} thorough",
      "evidence_file": f"/verif/evidence/{c}.json",
      "replay_cmd_template": "./check --replay {path}",
      "engine": "rssl-sim",
      "level_claimed": {"category": d["category"], "text": d["text"], "design_ref": d["design"]},
      "level_note": d["note"],
      "technique": d["technique"],
    })
for c in ["C08", "C12", "C14"]:
    if c not in claimed:
        m["not_applicable"].append({"property_id": c, "reason": pending[c]})
for c, r in NA.items():
    m["not_applicable"].append({"property_id": c, "reason": r})
m["not_applicable"].sort(key=lambda x: x["property_id"])
json.dump(m, open("/verif/MANIFEST.json", "w"), indent=1)
print("claimed", claimed)
